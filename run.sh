#!/bin/bash
# usage: run.sh <property> <quick|thorough> [--only <obligation key>]
# Re-analyses /repo's current working tree (REPO overrides) with the static checker.
cd "$(dirname "$0")"
export GOFLAGS=-mod=mod GOPROXY=off GOSUMDB=off GOTOOLCHAIN=local
unset GOWORK
PROP=$1; TIER=${2:-${VERIF_TIER:-quick}}; shift; shift
if [ ! -x bin/nricheck ] || [ -n "$(find checker -name '*.go' -newer bin/nricheck 2>/dev/null | head -1)" ]; then
  (cd checker && go build -o ../bin/nricheck .) || { echo "cannot build checker"; exit 2; }
fi
if [ "$1" = "--replay" ]; then
  KEY=$(python3 -c "import json,sys; print(json.load(open(sys.argv[1]))['key'])" "$2") || exit 2
  exec bin/nricheck -repo "${REPO:-/repo}" -property "$PROP" -tier "$TIER" -verif "$PWD" -only "$KEY"
fi
if [ "$1" = "--only" ]; then
  exec bin/nricheck -repo "${REPO:-/repo}" -property "$PROP" -tier "$TIER" -verif "$PWD" -only "$2"
fi
exec bin/nricheck -repo "${REPO:-/repo}" -property "$PROP" -tier "$TIER" -verif "$PWD" "$@"
