#!/usr/bin/env python3
"""Development tooling (not a registered check): applies seeded variants of /repo in a
scratch git worktree outside /repo and /verif, makes sure each still compiles (and,
with --tests, still passes the pinned suite), runs the named property checks against
the scratch tree and requires that they fire (or, for 'silent' variants, stay quiet).

usage: run.py [--tests] [--keep] [--only ID[,ID..]] [--prop Cnn] variants.json...
"""
import json, os, subprocess, sys, shutil, glob, time

VERIF = os.path.dirname(os.path.dirname(os.path.abspath(__file__)))
REPO = "/repo"
WT = "/tmp/nri-selftest-wt"
ENV = dict(os.environ, GOFLAGS="-mod=mod", GOPROXY="off", GOSUMDB="off", GOTOOLCHAIN="local")
ENV.pop("GOWORK", None)


def sh(cmd, cwd=None, check=False):
    p = subprocess.run(cmd, shell=True, executable="/bin/bash", cwd=cwd, env=ENV, stdout=subprocess.PIPE, stderr=subprocess.STDOUT, text=True)
    if check and p.returncode != 0:
        print(p.stdout)
        raise SystemExit("command failed: " + cmd)
    return p.returncode, p.stdout


def setup():
    if os.path.isdir(WT):
        sh(f"git -C {REPO} worktree remove --force {WT}")
        shutil.rmtree(WT, ignore_errors=True)
    sh(f"git -C {REPO} worktree prune")
    sh(f"git -C {REPO} worktree add --detach {WT} HEAD", check=True)


def teardown():
    sh(f"git -C {REPO} worktree remove --force {WT}")
    shutil.rmtree(WT, ignore_errors=True)
    sh(f"git -C {REPO} worktree prune")


def reset():
    sh("git checkout -q -- . && git clean -fdq", cwd=WT, check=True)


def apply(v):
    if "patch" in v:
        path = v["patch"]
        if not os.path.isabs(path):
            path = os.path.join(VERIF, path)
        rc, out = sh(f"git apply {'-R ' if v.get('reverse') else ''}{path}", cwd=WT)
        if rc != 0:
            return "patch does not apply: " + out
        return None
    if "revert_commit" in v:
        rc, out = sh(f"git -C {REPO} show {v['revert_commit']} | git apply -R", cwd=WT)
        if rc != 0:
            return "revert does not apply: " + out
        return None
    for e in v["edits"]:
        fn = os.path.join(WT, e["file"])
        s = open(fn).read()
        n = s.count(e["old"])
        want = e.get("count", 1)
        if n != want:
            return f"{e['file']}: old text occurs {n} times, want {want}"
        s = s.replace(e["old"], e["new"])
        open(fn, "w").write(s)
    return None


def main():
    args = sys.argv[1:]
    tests = "--tests" in args
    keep = "--keep" in args
    only = None
    prop = None
    files = []
    i = 0
    while i < len(args):
        a = args[i]
        if a == "--only":
            only = set(args[i + 1].split(","))
            i += 1
        elif a == "--prop":
            prop = args[i + 1]
            i += 1
        elif not a.startswith("-"):
            files.append(a)
        i += 1
    if not files:
        files = sorted(glob.glob(os.path.join(VERIF, "selftest", "variants", "*.json")))
    variants = []
    for f in files:
        variants += json.load(open(f))
    setup()
    bad = 0
    try:
        for v in variants:
            if only and v["id"] not in only:
                continue
            if prop and prop not in v["props"]:
                continue
            reset()
            err = apply(v)
            if err:
                print(f"[{v['id']}] CANNOT APPLY: {err}")
                bad += 1
                continue
            mods = v.get("build", ["."])
            okb = True
            for m in mods:
                pat = "./pkg/... ./plugins/..." if m == "." else "./..."
                rc, out = sh(f"go build {pat} 2>&1 | grep -v '^#' | head -5; exit ${{PIPESTATUS[0]}}", cwd=os.path.join(WT, m))
                if rc != 0:
                    print(f"[{v['id']}] DOES NOT COMPILE: {out}")
                    okb = False
            if not okb:
                bad += 1
                continue
            if tests:
                rc, out = sh(f"{VERIF}/scripts/baseline.sh {WT}")
                if rc != 0:
                    print(f"[{v['id']}] SUITE FAILS (variant is not test-passing):\n{out[-800:]}")
            silent = v.get("silent", False)
            for p in v["props"]:
                if prop and p != prop:
                    continue
                t0 = time.time()
                rc, out = sh(f"{VERIF}/bin/nricheck -repo {WT} -property {p} -tier {v.get('tier','quick')} -verif /tmp/nri-selftest-verif", cwd=VERIF)
                fired = rc == 1 and "VIOLATION property=" + p in out
                rules = sorted(set(l.split()[1].split(":")[0] for l in out.splitlines() if l.startswith(("VIOLATED ", "UNDECIDED "))))
                if silent:
                    status = "ok (silent)" if rc == 0 else "FALSE ALARM"
                    if rc != 0:
                        bad += 1
                else:
                    want = v.get("expect_rule")
                    if not fired:
                        status = "MISSED"
                        bad += 1
                    elif want and want not in rules:
                        status = f"fired, but not rule {want}"
                        bad += 1
                    else:
                        status = "caught"
                print(f"[{v['id']}] {p}: {status} rules={','.join(rules)} ({time.time()-t0:.1f}s) -- {v.get('what','')}")
                if "-v" in args and (status not in ("caught", "ok (silent)")):
                    print(out[-3000:])
    finally:
        if not keep:
            teardown()
        shutil.rmtree("/tmp/nri-selftest-verif", ignore_errors=True)
    print("selftest:", "FAILED" if bad else "ok", f"({bad} problems)")
    sys.exit(1 if bad else 0)


main()
