#!/bin/bash
# Runs every property check against every stored behaviour-preserving refactoring (must all stay silent).
# usage: refac_all.sh [id-prefix]
cd "$(dirname "$0")/.."
rc=0
for d in selftest/refactorings/${1}*.diff; do
  id=$(basename $d .diff)
  python3 scripts/check_refac.py $id $PWD/$d 2>&1 | grep -E "ALARM|alarmed|silent|apply|compile" | cut -c1-220
done
