package main

import (
	"encoding/json"
	"flag"
	"fmt"
	"os"
	"path/filepath"
	"runtime/debug"
	"sort"
	"strings"
	"time"

	"golang.org/x/tools/go/ssa"
)

// propInfo describes one property check.
type propInfo struct {
	run         func(c *Ctx)
	explanation string
	assumptions []string
	notDecided  []string
}

var props = map[string]*propInfo{}

func register(id string, p *propInfo) { props[id] = p }

var commonAssumptions = []string{
	"the Go type checker and go/ssa (golang.org/x/tools v0.29.0) represent the program faithfully",
	"context-insensitive analysis; calls into the standard library, ttrpc, wazero and runtime-tools are opaque except for the summaries listed in DESIGN.md 2.2",
	"no reflection or unsafe in the analysed hand-written functions",
	"the decided clauses are structural necessary conditions of the property, not the behaviour itself (DESIGN.md section 3)",
}

func main() {
	repo := flag.String("repo", "/repo", "repository to analyse")
	prop := flag.String("property", "", "property id (C01..C20)")
	tier := flag.String("tier", "quick", "quick|thorough")
	verif := flag.String("verif", "/verif", "verif directory (evidence, known findings)")
	only := flag.String("only", "", "only report the obligation with this key (replay)")
	list := flag.Bool("list", false, "list all obligations")
	describe := flag.Bool("describe", false, "print the registered properties as JSON and exit")
	dumpNames := flag.Bool("dump-names", false, "print the reference name table (names.json) of -repo and exit")
	flag.Parse()
	if *dumpNames {
		m, err := loadModule(*repo, false, nil)
		if err != nil {
			fmt.Fprintln(os.Stderr, err)
			os.Exit(2)
		}
		tab := m.currentNames()
		for k, v := range m.currentFields() {
			for t, fs := range v {
				tab[k][t] = fs
			}
		}
		for _, extra := range pluginModuleDirs {
			if pm, err := loadModule(filepath.Join(*repo, extra), false, nil); err == nil {
				for k, v := range pm.currentNames() {
					if _, have := tab[k]; !have {
						tab[k] = v
						for t, fs := range pm.currentFields()[k] {
							tab[k][t] = fs
						}
					}
				}
			}
		}
		b, _ := json.MarshalIndent(tab, "", " ")
		fmt.Println(string(b))
		return
	}
	if *describe {
		out := map[string]interface{}{}
		for id, p := range props {
			out[id] = map[string]interface{}{"explanation": p.explanation, "not_decided": p.notDecided}
		}
		b, _ := json.MarshalIndent(out, "", " ")
		fmt.Println(string(b))
		return
	}
	if t := os.Getenv("VERIF_TIER"); t != "" && *tier == "" {
		*tier = t
	}
	p := props[*prop]
	if p == nil {
		var ids []string
		for id := range props {
			ids = append(ids, id)
		}
		sort.Strings(ids)
		fmt.Fprintf(os.Stderr, "unknown property %q; have %s\n", *prop, strings.Join(ids, " "))
		os.Exit(2)
	}
	abs, _ := filepath.Abs(*repo)
	c := &Ctx{Repo: abs, Tier: *tier, Prop: *prop, Start: time.Now()}
	os.Exit(runProp(c, p, *verif, *only, *list))
}

func runProp(c *Ctx, p *propInfo, verif, only string, list bool) (code int) {
	loadFail := func(msg string) int {
		// fail closed: a tree that cannot be loaded, or an anchor that cannot be
		// resolved, is reported as a violation of the property's load rule.
		c.rule("load", "the repository loads, type-checks and every anchor of the rules resolves by type-checked identity", 0)
		c.addAt("load", "load", "-", Violated, "load and resolve anchors", msg)
		if c.M == nil {
			c.M = &Module{}
		}
		return c.finish(verif, p.explanation, append(append([]string{}, commonAssumptions...), p.assumptions...), p.notDecided)
	}
	m, err := loadModule(c.Repo, false, nil)
	if err != nil {
		return loadFail(err.Error())
	}
	c.M = m
	m.funcs()
	func() {
		defer func() {
			if r := recover(); r != nil {
				if ae, ok := r.(anchorErr); ok {
					code = loadFail(ae.msg)
					return
				}
				code = loadFail(fmt.Sprintf("checker panic: %v\n%s", r, debug.Stack()))
			}
		}()
		p.run(c)
		code = -1
	}()
	if code != -1 {
		return code
	}
	if c.Tier == "thorough" && only == "" {
		runExtraConfigs(c, p)
	}
	if only != "" {
		var keep []*Obligation
		for _, o := range c.obs {
			if o.Key == only {
				keep = append(keep, o)
			}
		}
		for _, o := range keep {
			fmt.Printf("%s %s at %s\n  %s\n  %s\n", strings.ToUpper(o.Status), o.Key, o.Pos, o.What, o.Detail)
		}
		if len(keep) == 0 {
			fmt.Printf("no obligation with key %q on this tree\n", only)
			return 2
		}
		for _, o := range keep {
			if o.status != Discharged {
				return 1
			}
		}
		return 0
	}
	if list {
		for _, o := range c.obs {
			fmt.Printf("%-10s %-12s %-70s %s\n", o.Status, o.Rule, o.Key, o.Pos)
		}
	}
	return c.finish(verif, p.explanation, append(append([]string{}, commonAssumptions...), p.assumptions...), p.notDecided)
}

// extraConfigs are the additional build configurations of the thorough tier:
// they change the file set (build-tagged variants) or the word size.
var extraConfigs = [][2]string{{"linux", "arm64"}, {"linux", "386"}, {"darwin", "amd64"}}

// runExtraConfigs re-loads the repository for other GOOS/GOARCH and re-decides
// the property there; obligations are merged under a configuration prefix.
func runExtraConfigs(c *Ctx, p *propInfo) {
	for _, cfg := range extraConfigs {
		name := cfg[0] + "/" + cfg[1]
		m, err := loadModule(c.Repo, false, nil, "GOOS="+cfg[0], "GOARCH="+cfg[1], "CGO_ENABLED=0")
		if err != nil {
			c.note("configuration %s: not analysed (%v)", name, firstLine(err.Error()))
			continue
		}
		m.funcs()
		c2 := &Ctx{Repo: c.Repo, Tier: "quick", Prop: c.Prop, Start: c.Start, M: m}
		ok := func() (ok bool) {
			defer func() {
				if r := recover(); r != nil {
					c.note("configuration %s: not analysed (%v)", name, r)
					ok = false
				}
			}()
			adaptLocks, allLocksLA = nil, nil
			genEffMemo = map[*ssa.Function]genEffects{}
			p.run(c2)
			return true
		}()
		adaptLocks, allLocksLA = nil, nil
		genEffMemo = map[*ssa.Function]genEffects{}
		if !ok {
			continue
		}
		c.configs = append(c.configs, name+" (whole module re-analysed)")
		for _, o := range c2.obs {
			o.Key = o.Rule + ":" + name + ":" + strings.TrimPrefix(o.Key, o.Rule+":")
			c.obs = append(c.obs, o)
		}
	}
	if len(c.configs) > 0 {
		c.configs = append([]string{"linux/amd64 (default build configuration)"}, c.configs...)
	}
}

func firstLine(s string) string {
	if i := strings.IndexByte(s, '\n'); i >= 0 {
		s = s[:i]
	}
	if len(s) > 200 {
		s = s[:200]
	}
	return s
}
