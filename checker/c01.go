package main

import (
	"fmt"
	"go/token"
	"go/types"
	"sort"
	"strings"

	"golang.org/x/tools/go/ssa"
)

func init() {
	register("C01", &propInfo{
		run: func(c *Ctx) {
			ma := newMergeAnalysis(c)
			ma.ruleR1(c)
			ma.ruleR1t(c)
			ruleR2R3(c)
			ruleR4(c)
			ruleR5(c)
			ma.ruleR6(c)
			ma.ruleR7(c)
			ma.ruleR8(c)
			ma.ruleR8u(c)
			ruleL1(c)
			ruleL2(c)
		},
		explanation: "Decides the ownership-ledger discipline behind conflict detection: every write of a plugin-supplied value into the reply accumulator, the request view or the staged update copy is dominated by the success edge of a claim (or by a claim-all loop over the collection written); claim functions and items are in bijection across all merge functions; every claim is exclusive (stores the owner only into an empty slot, otherwise returns the non-nil conflict error) and uses a slot of its own; the ledger is created once per result and persisted on the miss path; every error of the merge family is tested and returned up to the exported request methods, which return (nil, err); claims are keyed by the target container's id and by the key field of the element written; claims are controlled by the plugin's own response; all of this runs under the adaptation lock with a per-request result that does not escape. The key of every keyed claim is known not to be a removal marker where the claim runs. A merge function that claims never returns success early under a comparison of values.",
		notDecided: []string{
			"that the set of owned items is the set a runtime cares about",
			"string equality semantics of keys (e.g. un-normalised mount paths)",
			"anything about the values themselves",
		},
	})
}

// mergeAnalysis holds the per-function analyses of the merge family.
type mergeAnalysis struct {
	m   *Module
	fns []*mergeFn
	// association of claim functions and items, collected by R1
	pairs map[string]map[string]bool // claim -> items
}

func newMergeAnalysis(c *Ctx) *mergeAnalysis {
	ma := &mergeAnalysis{m: c.M, pairs: map[string]map[string]bool{}}
	for _, f := range mergeFamily(c.M) {
		ma.fns = append(ma.fns, newMergeFn(c.M, f))
	}
	if len(ma.fns) < 10 {
		panic(anchorErr{fmt.Sprintf("merge family (methods of *result returning error) has only %d members", len(ma.fns))})
	}
	return ma
}

func (ma *mergeAnalysis) get(name string) *mergeFn {
	for _, f := range ma.fns {
		if f.fn.Name() == name {
			return f
		}
	}
	return nil
}

// r1Spaces are the locations holding accepted values.
var r1Spaces = map[string]bool{"reply": true, "view": true, "staged": true, "updacc": true, "acc?": true}

// hookItem: hooks are not owned items (all plugins' hooks are kept); frozen exemption with reason.
func hookItem(item string) bool { return strings.HasPrefix(item, "Hooks") }

// classify a write for R1: "value" (plugin value, needs a claim), "marker",
// "internal" (no plugin-derived content: filter rebuild, commit, alias), "removal".
func (mf *mergeFn) classify(w *mwrite) string {
	if w.kind == "delete" {
		return "removal"
	}
	if w.vtag&tPlugin == 0 {
		return "internal"
	}
	if w.vtag&tMarker != 0 {
		return "marker"
	}
	b := w.block()
	if w.isAppnd {
		if len(w.elems) > 0 {
			all := true
			for _, e := range w.elems {
				if mf.elemMarked(e, b) != 1 {
					all = false
				}
			}
			if all {
				return "marker"
			}
		} else if ap, ok := isBuiltinCall(w.val, "append"); ok && len(ap.Call.Args) > 1 {
			if p, ok := mf.partition(ap.Call.Args[1]); ok && p == 1 {
				return "marker"
			}
		}
	}
	if w.kind == "mapupdate" && w.key != nil && mf.elemMarked(w.key, b) == 1 {
		return "marker"
	}
	return "value"
}

func innermostGuard(gs []*claimCall) *claimCall {
	var best *claimCall
	for _, g := range gs {
		if best == nil {
			best = g
			continue
		}
		// g is more inner if best's ok-region dominates g's call
		if guardedBy(best.call, g.call.Block()) {
			best = g
		}
	}
	return best
}

func (ma *mergeAnalysis) ruleR1(c *Ctx) {
	c.rule("R1", "claim-before-write: every write of a plugin-supplied value into the reply accumulator, the request view or the staged update copy is dominated by the success edge of a claim, or appends a collection all of whose elements were claimed by a claim-all loop that dominates the write", 60)
	ord := map[string]int{}
	for _, mf := range ma.fns {
		sortWrites(mf.writes)
		for _, w := range mf.writes {
			if !r1Spaces[w.space] || hookItem(w.item) {
				continue
			}
			cls := mf.classify(w)
			if cls != "value" {
				continue
			}
			base := fmt.Sprintf("%s/%s/%s", mf.fn.Name(), w.space, w.item)
			ord[base]++
			key := base
			if ord[base] > 1 {
				key = fmt.Sprintf("%s#%d", base, ord[base])
			}
			what := fmt.Sprintf("write of plugin value into %s %s in %s is claimed first", w.space, w.item, mf.fn.Name())
			if g := innermostGuard(mf.claimGuards(w.block())); g != nil {
				ma.pair(g.name(), w.item)
				c.add("R1", key, w.instr.Pos(), Discharged, what, "")
				continue
			}
			// claim-all
			var colls []ssa.Value
			if w.isAppnd {
				if len(w.elems) == 0 {
					if ap, ok := isBuiltinCall(w.val, "append"); ok && len(ap.Call.Args) > 1 {
						colls = append(colls, ap.Call.Args[1])
					}
				}
				for _, e := range w.elems {
					if coll, _ := rangeOf(e); coll != nil {
						colls = append(colls, coll)
					} else {
						colls = append(colls, nil)
					}
				}
			}
			okAll := len(colls) > 0
			var via *claimCall
			for _, coll := range colls {
				if coll == nil {
					okAll = false
					break
				}
				g := mf.claimAllLoop(coll, w.block())
				if g == nil {
					// a list built from the elements of another local list (converted copies): the claim-all loop over that one
					if ins, local := mf.insertions(coll); local && len(ins) > 0 {
						for _, i := range ins {
							var g2 *claimCall
							if i.elem != nil {
								if c2, _ := rangeOf(i.elem); c2 != nil {
									g2 = mf.claimAllLoop(c2, w.block())
								}
							}
							if g2 == nil {
								g = nil
								break
							}
							g = g2
						}
					}
				}
				if g == nil {
					okAll = false
					break
				}
				via = g
			}
			if okAll {
				ma.pair(via.name(), w.item)
				c.add("R1", key, w.instr.Pos(), Discharged, what+" (claim-all loop)", "")
				continue
			}
			c.violate("R1", key, w.instr.Pos(), what,
				fmt.Sprintf("the %s at this site writes a value derived from the plugin's response (provenance %s) into %s but no claim's success edge dominates it and no claim-all loop over the written collection precedes it: a second plugin's value would silently replace or join the first", w.kind, w.vtag, w.target))
		}
	}
}

func (ma *mergeAnalysis) pair(claim, item string) {
	if ma.pairs[claim] == nil {
		ma.pairs[claim] = map[string]bool{}
	}
	ma.pairs[claim][item] = true
}

func (ma *mergeAnalysis) ruleR1t(c *Ctx) {
	c.rule("R1t", "claim functions and items are in bijection across all merge functions: a claim guards writes of exactly one item, an item's writes are guarded by exactly one claim function, and every claim function is used", 29)
	claims, _ := ledgerFamily(c.M)
	itemOwners := map[string][]string{}
	for _, cf := range claims {
		items := sortedKeys(ma.pairs[cf.Name()])
		what := fmt.Sprintf("claim %s guards writes of exactly one item", cf.Name())
		switch len(items) {
		case 1:
			c.add("R1t", cf.Name(), cf.Pos(), Discharged, what, "")
		case 0:
			c.violate("R1t", cf.Name(), cf.Pos(), what, "this claim function guards no write at all: the item it stands for is written without a claim or not written")
		default:
			c.violate("R1t", cf.Name(), cf.Pos(), what, "it guards writes of several items ("+strings.Join(items, ", ")+"): one of them is claimed under another item's slot, so two plugins setting it are not detected (or unrelated items collide)")
		}
		for _, it := range items {
			itemOwners[it] = append(itemOwners[it], cf.Name())
		}
	}
	for _, it := range sortedKeys(itemOwners) {
		cs := itemOwners[it]
		c.ok("R1t", "item/"+it, token.NoPos, len(cs) == 1, fmt.Sprintf("item %s is guarded by exactly one claim function", it),
			"item is guarded by different claim functions in different places ("+strings.Join(cs, ", ")+"): two plugins can both set it without sharing a ledger slot")
	}
}

// ---------------------------------------------------------------- R2 / R3: the ledger itself

type slotUse struct {
	fn    *ssa.Function
	slot  string
	keyed bool
}

// ownersSlots: fields of `owners` touched by method f through its receiver.
func ownersSlots(m *Module, f *ssa.Function) []string {
	set := map[string]bool{}
	for _, b := range f.Blocks {
		for _, in := range b.Instrs {
			if fa, ok := in.(*ssa.FieldAddr); ok && fa.X == ssa.Value(f.Params[0]) {
				set[fieldName(fa.X.Type(), fa.Field)] = true
			}
		}
	}
	return sortedKeys(set)
}

// nonNilErrorFn: every return of f yields a call to fmt.Errorf / errors.New (never nil).
func nonNilErrorFn(m *Module, f *ssa.Function) bool {
	if f == nil || f.Blocks == nil {
		return false
	}
	rets := returnsOf(f)
	if len(rets) == 0 {
		return false
	}
	for _, r := range rets {
		for _, v := range returnValues(r, len(r.Results)-1) {
			if !isNonNilErrorValue(m, v, 0) {
				return false
			}
		}
	}
	return true
}

func isNonNilErrorValue(m *Module, v ssa.Value, depth int) bool {
	call, ok := v.(*ssa.Call)
	if !ok || depth > 2 {
		if mi, ok := v.(*ssa.MakeInterface); ok {
			_ = mi
			return true // a concrete value boxed into error is non-nil as an interface
		}
		return false
	}
	f := m.callee(call.Common())
	if f == nil {
		return false
	}
	switch f.String() {
	case "fmt.Errorf", "errors.New":
		return true
	}
	if f.Pkg != nil && strings.HasPrefix(f.Pkg.Pkg.Path(), modPath) {
		return nonNilErrorFn(m, f)
	}
	return false
}

func ruleR2R3(c *Ctx) {
	m := c.M
	c.rule("R2", "claim is exclusive: the owner is stored only into an empty slot (the store is control-dependent on the emptiness test of the same slot and key), every other path returns the non-nil conflict error, success returns nil only after the store", 29)
	c.rule("R3", "claim map is injective: every claim wrapper forwards its id to the per-container ledger and its key and plugin unchanged to one ledger method; each ledger method touches exactly one slot, distinct claims use distinct slots, every slot has exactly one claim and at most one clear, and a clear empties the slot its claim fills", 29)
	claims, clears, accessor := claimFamily(m)
	if accessor == nil {
		panic(anchorErr{"ledger accessor (method of resultOwners returning *owners) not found"})
	}
	ownersT := m.structOf(pkgAdapt, "owners")
	slotClaim := map[string][]string{}
	slotKeyed := map[string]bool{}

	// inner resolves a wrapper to the ledger method it forwards to and checks the forwarding.
	inner := func(w *ssa.Function, isClaim bool) (*ssa.Function, string) {
		var found *ssa.Function
		var prob string
		n := 0
		for _, ci := range calls(w) {
			call, ok := ci.(*ssa.Call)
			if !ok {
				continue
			}
			g := m.callee(call.Common())
			if g == nil {
				prob = "dynamic call in wrapper"
				continue
			}
			if g == accessor {
				if len(call.Call.Args) != 2 || call.Call.Args[0] != ssa.Value(w.Params[0]) || call.Call.Args[1] != ssa.Value(w.Params[1]) {
					prob = "ledger accessor is not called with the wrapper's own receiver and id"
				}
				continue
			}
			if rn := recvNamed(g); rn != nil && tname(rn.Obj()) == "owners" {
				n++
				found = g
				args := call.Call.Args
				acc, ok := args[0].(*ssa.Call)
				if !ok || m.callee(acc.Common()) != accessor {
					prob = "ledger method is not invoked on the accessor's result"
				}
				// remaining args are the wrapper's remaining params in order
				rest := w.Params[2:]
				if len(args)-1 != len(rest) {
					prob = "argument count differs"
				} else {
					for i, a := range args[1:] {
						if a != ssa.Value(rest[i]) {
							prob = fmt.Sprintf("argument %d is not the wrapper's parameter %q", i+1, rest[i].Name())
						}
					}
				}
				if isClaim {
					// the wrapper returns the method's result
					for _, r := range returnsOf(w) {
						if len(r.Results) != 1 || r.Results[0] != ssa.Value(call) {
							prob = "wrapper does not return the ledger method's error"
						}
					}
				}
			}
		}
		if n != 1 {
			return nil, fmt.Sprintf("wrapper calls %d ledger methods, want exactly 1", n)
		}
		return found, prob
	}

	lclaims, lclears := ledgerFamily(m)
	// wrappers forward faithfully
	for _, w := range claims {
		g, prob := inner(w, true)
		c.ok("R3", "wrapper/"+w.Name(), w.Pos(), g != nil && prob == "", "claim wrapper "+w.Name()+" forwards (id→ledger, key, plugin) faithfully to one ledger method", prob)
	}
	for _, w := range clears {
		g, prob := inner(w, false)
		c.ok("R3", "wrapper/"+w.Name(), w.Pos(), g != nil && prob == "", "clear wrapper "+w.Name()+" forwards (id→ledger, key) faithfully to one ledger method", prob)
	}
	for _, g := range lclaims {
		slots := ownersSlots(m, g)
		if len(slots) != 1 {
			c.violate("R3", g.Name(), g.Pos(), "claim touches exactly one ledger slot", fmt.Sprintf("ledger method %s touches slots %v", g.Name(), slots))
			continue
		}
		slot := slots[0]
		slotClaim[slot] = append(slotClaim[slot], g.Name())
		keyed := len(g.Params) == 3
		slotKeyed[slot] = keyed
		c.add("R3", g.Name(), g.Pos(), Discharged, fmt.Sprintf("ledger claim %s touches only slot %q", g.Name(), slot), "")
		checkClaimExclusive(c, g, slot, keyed)
	}
	// distinct slots, all slots covered
	for i := 0; i < ownersT.NumFields(); i++ {
		slot := fname(ownersT.Field(i))
		cs := slotClaim[slot]
		c.ok("R3", "slot/"+slot, ownersT.Field(i).Pos(), len(cs) == 1, fmt.Sprintf("ledger slot %q is filled by exactly one claim", slot),
			fmt.Sprintf("slot is used by %d claims %v: distinct items share an owner record (false conflicts) or an item has no owner record", len(cs), cs))
	}
	// clears
	slotClear := map[string]int{}
	for _, g := range lclears {
		slots := ownersSlots(m, g)
		if len(slots) != 1 || len(slotClaim[slots[0]]) != 1 {
			c.violate("R3", g.Name(), g.Pos(), "clear empties exactly one slot that a claim fills", fmt.Sprintf("ledger method %s touches slots %v", g.Name(), slots))
			continue
		}
		slot := slots[0]
		slotClear[slot]++
		// effect: delete(o.slot, key) with key = param, or store of "" into the slot
		okEff := false
		for _, b := range g.Blocks {
			for _, in := range b.Instrs {
				switch x := in.(type) {
				case *ssa.Call:
					if bi, ok := x.Call.Value.(*ssa.Builtin); ok && bi.Name() == "delete" && slotKeyed[slot] {
						a := m.ap(x.Call.Args[0])
						if a.Root == ssa.Value(g.Params[0]) && a.PathString() == slot && len(g.Params) == 2 && x.Call.Args[1] == ssa.Value(g.Params[1]) {
							okEff = true
						}
					}
				case *ssa.Store:
					if fa, ok := x.Addr.(*ssa.FieldAddr); ok && fa.X == ssa.Value(g.Params[0]) && !slotKeyed[slot] {
						if s, ok := constString(x.Val); ok && s == "" {
							okEff = true
						}
					}
				}
			}
		}
		c.ok("R3", g.Name(), g.Pos(), okEff && slotClear[slot] == 1, fmt.Sprintf("clear %s empties slot %q for exactly the given key", g.Name(), slot),
			"the clear does not delete the given key from / reset the slot its claim fills, or the slot has several clears")
	}
}

// checkClaimExclusive decides R2 for one ledger claim method.
func checkClaimExclusive(c *Ctx, g *ssa.Function, slot string, keyed bool) {
	m := c.M
	name := g.Name()
	recv := g.Params[0]
	var plugin ssa.Value = g.Params[len(g.Params)-1]
	var key ssa.Value
	if keyed {
		key = g.Params[1]
	}
	what := fmt.Sprintf("ledger method %s stores the owner only into an empty slot %q and otherwise returns the conflict error", name, slot)
	isSlotAddr := func(v ssa.Value) bool {
		fa, ok := v.(*ssa.FieldAddr)
		return ok && fa.X == ssa.Value(recv) && fieldName(fa.X.Type(), fa.Field) == slot
	}
	// delegation: the method hands the address of its slot, its key and its plugin to a helper and
	// returns the helper's result; the helper's body is then the claim
	for _, ci := range calls(g) {
		call, ok := ci.(*ssa.Call)
		if !ok {
			continue
		}
		h := m.callee(call.Common())
		if h == nil || len(h.Blocks) == 0 || h.Pkg == nil || h.Pkg.Pkg.Path() != pkgAdapt {
			continue
		}
		si, ki, pi := -1, -1, -1
		for i, a := range call.Call.Args {
			switch {
			case isSlotAddr(a):
				si = i
			case key != nil && a == key:
				ki = i
			case a == plugin:
				pi = i
			}
		}
		if si < 0 || pi < 0 || (keyed && ki < 0) {
			continue
		}
		returned := true
		for _, r := range returnsOf(g) {
			if len(r.Results) != 1 || r.Results[0] != ssa.Value(call) {
				returned = false
			}
		}
		if !returned {
			c.violate("R2", name, call.Pos(), what, "the method delegates to "+funcKey(h)+" but does not return its result")
			return
		}
		sp := ssa.Value(h.Params[si])
		isSlotAddr = func(v ssa.Value) bool { return v == sp }
		plugin = h.Params[pi]
		if keyed {
			key = h.Params[ki]
		}
		g = h
		break
	}
	isSlotLoad := func(v ssa.Value) bool {
		u, ok := v.(*ssa.UnOp)
		if !ok || u.Op != token.MUL {
			return false
		}
		return isSlotAddr(u.X)
	}
	// the owner store(s)
	var ownerStores []ssa.Instruction
	var bad []string
	for _, b := range g.Blocks {
		for _, in := range b.Instrs {
			switch x := in.(type) {
			case *ssa.Store:
				if !isSlotAddr(x.Addr) {
					if fa, ok := x.Addr.(*ssa.FieldAddr); ok && fa.X == ssa.Value(recv) && g.Params[0] == recv {
						bad = append(bad, fmt.Sprintf("store into another slot at %s", c.pos(x.Pos())))
					}
					continue
				}
				if x.Val == plugin && !keyed {
					ownerStores = append(ownerStores, x)
					continue
				}
				// map creation under a nil test of the same slot is accepted
				if _, isMake := x.Val.(*ssa.MakeMap); isMake && keyed {
					okNil := false
					for _, cd := range controls(b) {
						cd = normCond(cd)
						if bo, ok := cd.V.(*ssa.BinOp); ok && isSlotLoad(bo.X) && isNilConst(bo.Y) && ((bo.Op == token.EQL && cd.Pol) || (bo.Op == token.NEQ && !cd.Pol)) {
							okNil = true
						}
					}
					if okNil {
						continue
					}
					bad = append(bad, "the slot's map is re-created unconditionally (all owners forgotten)")
					continue
				}
				bad = append(bad, fmt.Sprintf("unexpected store into the slot at %s", c.pos(x.Pos())))
			case *ssa.MapUpdate:
				if keyed && isSlotLoad(x.Map) && x.Key == key && x.Value == plugin {
					ownerStores = append(ownerStores, x)
				} else {
					bad = append(bad, fmt.Sprintf("unexpected map update at %s", c.pos(x.Pos())))
				}
			}
		}
	}
	if len(ownerStores) != 1 {
		c.violate("R2", name, g.Pos(), what, fmt.Sprintf("found %d stores of the claiming plugin into the slot, want exactly 1; %s", len(ownerStores), strings.Join(bad, "; ")))
		return
	}
	st := ownerStores[0]
	// emptiness test controls the store
	empty := false
	for _, cd := range controls(st.Block()) {
		cd = normCond(cd)
		if keyed {
			if ex, ok := cd.V.(*ssa.Extract); ok && ex.Index == 1 && !cd.Pol {
				if lk, ok := ex.Tuple.(*ssa.Lookup); ok && lk.CommaOk && isSlotLoad(lk.X) && lk.Index == key {
					empty = true
				}
			}
		} else if bo, ok := cd.V.(*ssa.BinOp); ok {
			if s, isS := constString(bo.Y); isS && s == "" && isSlotLoad(bo.X) && ((bo.Op == token.EQL && cd.Pol) || (bo.Op == token.NEQ && !cd.Pol)) {
				empty = true
			}
		}
	}
	if !empty {
		c.violate("R2", name, st.Pos(), what, "the store of the owner is not control-dependent on the slot (for this key) being empty: a second claimant overwrites the first owner instead of being refused")
		return
	}
	// returns
	for _, r := range returnsOf(g) {
		for _, v := range returnValues(r, 0) {
			if isNilConst(v) {
				if !domInstr(st, r) {
					bad = append(bad, fmt.Sprintf("returns nil at %s on a path that did not record the owner", c.pos(r.Pos())))
				}
				continue
			}
			if !isNonNilErrorValue(m, v, 0) {
				bad = append(bad, fmt.Sprintf("return at %s yields neither nil-after-claim nor the conflict error", c.pos(r.Pos())))
			}
		}
	}
	if len(bad) > 0 {
		c.violate("R2", name, g.Pos(), what, strings.Join(bad, "; "))
		return
	}
	c.add("R2", name, g.Pos(), Discharged, what, "")
}

// ---------------------------------------------------------------- R4 ledger persistence

func ruleR4(c *Ctx) {
	m := c.M
	c.rule("R4", "ledger persistence: the accessor stores a newly created per-container ledger into the map on the miss path before returning it, and a result's ledger map is only ever assigned where the result itself is created", 2)
	_, _, acc := claimFamily(m)
	ro, id := acc.Params[0], acc.Params[1]
	var upd *ssa.MapUpdate
	for _, b := range acc.Blocks {
		for _, in := range b.Instrs {
			if mu, ok := in.(*ssa.MapUpdate); ok && mu.Map == ssa.Value(ro) && mu.Key == ssa.Value(id) {
				upd = mu
			}
		}
	}
	what := "ownersFor persists the ledger it creates"
	if upd == nil {
		c.violate("R4", "ownersFor/persist", acc.Pos(), what, "no store of the new ledger into the map keyed by the container id: every call creates a fresh ledger, so no second claimant is ever seen")
	} else {
		miss := false
		for _, cd := range controls(upd.Block()) {
			cd = normCond(cd)
			if ex, ok := cd.V.(*ssa.Extract); ok && ex.Index == 1 && !cd.Pol {
				if lk, ok := ex.Tuple.(*ssa.Lookup); ok && lk.X == ssa.Value(ro) && lk.Index == ssa.Value(id) {
					miss = true
				}
			}
		}
		// returned value on the miss path is the stored one; on the hit path the looked-up one
		retOK := true
		for _, r := range returnsOf(acc) {
			for _, v := range returnValues(r, 0) {
				if v == upd.Value {
					continue
				}
				if ex, ok := v.(*ssa.Extract); ok && ex.Index == 0 {
					if lk, ok := ex.Tuple.(*ssa.Lookup); ok && lk.X == ssa.Value(ro) && lk.Index == ssa.Value(id) {
						continue
					}
				}
				retOK = false
			}
		}
		_, fresh := upd.Value.(*ssa.Alloc)
		c.ok("R4", "ownersFor/persist", upd.Pos(), miss && retOK && fresh, what,
			"the map update is not on the lookup-miss path, does not store a fresh ledger, or the function returns something other than the stored / looked-up ledger")
	}
	// the ledger map itself is only modified by the accessor (no delete / overwrite of a container's ledger elsewhere)
	roT := m.named(pkgAdapt, "resultOwners")
	for _, f := range m.funcsInPkg(pkgAdapt) {
		if f == acc {
			continue
		}
		for _, b := range f.Blocks {
			for _, in := range b.Instrs {
				var mp ssa.Value
				kind := ""
				switch x := in.(type) {
				case *ssa.MapUpdate:
					mp, kind = x.Map, "assigned"
				case *ssa.Call:
					if bi, ok := x.Call.Value.(*ssa.Builtin); ok && bi.Name() == "delete" {
						mp, kind = x.Call.Args[0], "deleted"
					}
				}
				if mp == nil {
					continue
				}
				if n, ok := types.Unalias(mp.Type()).(*types.Named); ok && n.Obj() == roT.Obj() {
					c.violate("R4", "ledger-write/"+funcKey(f), in.Pos(), "per-container ledgers are only created by the accessor and never dropped during a request",
						fmt.Sprintf("an entry of the ownership ledger is %s in %s: the claims of earlier plugins on that container are forgotten, so a later plugin setting the same item is not refused", kind, funcKey(f)))
				}
			}
		}
	}
	// who writes result.owners: only stores whose base is a fresh allocation in the same function
	resT := m.named(pkgAdapt, "result")
	n := 0
	for _, f := range m.funcsInPkg(pkgAdapt) {
		for _, fs := range m.fieldStores(f, resT, "owners") {
			n++
			_, fresh := fs.Addr.X.(*ssa.Alloc)
			c.ok("R4", "owners-writer/"+funcKey(f), fs.Store.Pos(), fresh, fmt.Sprintf("%s assigns result.owners only on the result it creates", funcKey(f)),
				"result.owners is re-assigned on an existing result: the ownership ledger of the running request is discarded")
		}
	}
	if n == 0 {
		c.violate("R4", "owners-writer", token.NoPos, "result.owners is initialised", "no store into result.owners found")
	}
}

// ---------------------------------------------------------------- R5 errors reach the runtime

func ruleR5(c *Ctx) {
	m := c.M
	c.rule("R5", "errors reach the runtime: every call of a claim or of a merge function has its error tested and returned on the non-nil branch (or is returned directly); the exported request methods return (nil, err); the only place an error may be dropped is update() under the plugin's IgnoreFailure flag", 60)
	claims, _, _ := claimFamily(m)
	lclaims, _ := ledgerFamily(m)
	family := map[*ssa.Function]bool{}
	for _, f := range claims {
		family[f] = true
	}
	for _, f := range lclaims {
		family[f] = true
	}
	for _, f := range mergeFamily(m) {
		family[f] = true
	}
	var callers []*ssa.Function
	for _, f := range m.funcsInPkg(pkgAdapt) {
		callers = append(callers, f)
	}
	ord := map[string]int{}
	for _, f := range callers {
		for _, ci := range calls(f) {
			call, ok := ci.(*ssa.Call)
			if !ok {
				if g := m.callee(ci.Common()); g != nil && family[g] {
					c.violate("R5", funcKey(f)+"/"+g.Name()+"/deferred", ci.Pos(), "merge error is checked", "merge function is called with go/defer: its error is lost")
				}
				continue
			}
			g := m.callee(call.Common())
			if g == nil || !family[g] {
				continue
			}
			base := funcKey(f) + "/" + g.Name()
			ord[base]++
			key := base
			if ord[base] > 1 {
				key = fmt.Sprintf("%s#%d", base, ord[base])
			}
			what := fmt.Sprintf("error of %s called in %s is returned to the caller", g.Name(), funcKey(f))
			st, detail := errPropagated(m, f, call)
			if st == "ignorefailure" {
				c.ok("R5", key, call.Pos(), f == m.method(pkgAdapt, "result", "update") && g == m.method(pkgAdapt, "result", "updateResources"), what+" (dropped only under IgnoreFailure)",
					"an error is dropped under an IgnoreFailure flag at a place other than update()/updateResources")
				continue
			}
			c.ok("R5", key, call.Pos(), st == "ok", what, detail)
		}
	}
}

// errPropagated decides whether the error result of call is returned by f on its non-nil branch.
func errPropagated(m *Module, f *ssa.Function, call *ssa.Call) (string, string) {
	ev := errResult(call)
	if ev == nil {
		return "bad", "callee has no error result"
	}
	nres := f.Signature.Results().Len()
	if nres == 0 || !isErrorType(f.Signature.Results().At(nres-1).Type()) {
		return "bad", "caller cannot return an error"
	}
	// tail call: the error is returned directly
	direct := false
	for _, r := range returnsOf(f) {
		for _, v := range returnValues(r, nres-1) {
			if v == ev {
				direct = true
			}
		}
	}
	fails := errFailBlocks(call)
	if len(fails) == 0 {
		if direct && len(*ev.Referrers()) >= 1 {
			// every use is the return
			return "ok", ""
		}
		if ev.Referrers() == nil || len(*ev.Referrers()) == 0 {
			return "bad", "the error result is discarded"
		}
		return "bad", "the error result is never compared with nil"
	}
	for _, fb := range fails {
		st, d := failLeadsToReturn(m, f, fb, ev, nres)
		if st != "ok" {
			return st, d
		}
	}
	return "ok", ""
}

func failLeadsToReturn(m *Module, f *ssa.Function, fb *ssa.BasicBlock, ev ssa.Value, nres int) (string, string) {
	// follow straight-line jumps
	b := fb
	for i := 0; i < 4; i++ {
		if isExit(b) {
			break
		}
		if len(b.Succs) == 1 {
			b = b.Succs[0]
			continue
		}
		break
	}
	if r, ok := b.Instrs[len(b.Instrs)-1].(*ssa.Return); ok {
		hasErr := false
		for _, v := range returnValues(r, nres-1) {
			if v == ev || derivedFrom(v, ev) {
				hasErr = true
			}
		}
		if !hasErr {
			return "bad", "the non-nil branch returns, but not this error"
		}
		for i := 0; i < nres-1; i++ {
			for _, v := range returnValues(r, i) {
				if !isNilConst(v) && !isZeroConst(v) {
					return "bad", fmt.Sprintf("the non-nil branch returns a non-nil result #%d next to the error (partial result)", i)
				}
			}
		}
		return "ok", ""
	}
	if iff := lastIf(b); iff != nil {
		// `err != nil && !u.IgnoreFailure`
		a := m.ap(iff.Cond)
		if u, ok := iff.Cond.(*ssa.UnOp); ok && u.Op == token.NOT {
			a = m.ap(u.X)
		}
		if len(a.Path) > 0 && a.Path[len(a.Path)-1] == "IgnoreFailure" {
			for _, s := range b.Succs {
				if st, _ := failLeadsToReturn(m, f, s, ev, nres); st == "ok" {
					return "ignorefailure", ""
				}
			}
		}
	}
	return "bad", "the non-nil branch does not return the error"
}

func isZeroConst(v ssa.Value) bool {
	c, ok := v.(*ssa.Const)
	return ok && (c.Value == nil)
}

// ---------------------------------------------------------------- R6 / R7 keys

func (ma *mergeAnalysis) ruleR6(c *Ctx) {
	c.rule("R6", "claims and clears are keyed by the target container: the id argument is the id of the container being created where the function writes the creation view / adjustment, and the ContainerId of the very update whose values are written otherwise", 49)
	ord := map[string]int{}
	for _, mf := range ma.fns {
		all := append(append([]*claimCall{}, mf.claims...), mf.clears...)
		if len(all) == 0 {
			continue
		}
		// does the function write the creation view / adjustment?
		creation := false
		for _, w := range mf.writes {
			if (w.space == "reply" || w.space == "view") && len(w.target.Path) > 1 && (w.target.Path[1] == "adjust" || w.target.Path[1] == "create") {
				creation = true
			}
		}
		for _, cc := range all {
			base := mf.fn.Name() + "/" + cc.name()
			ord[base]++
			key := base
			if ord[base] > 1 {
				key = fmt.Sprintf("%s#%d", base, ord[base])
			}
			a := c.M.ap(cc.id)
			// an id handed down as a parameter is what every caller passes
			if prm, ok := cc.id.(*ssa.Parameter); ok && prm != mf.recv {
				if ra, ok := resolveParamAP(c.M, mf.fn, prm); ok {
					a = ra
				}
			}
			what := fmt.Sprintf("%s in %s is keyed by the target container's id", cc.name(), mf.fn.Name())
			if creation {
				okID := isResultRecv(a.Root) && a.PathString() == "request.create.Container.Id"
				c.ok("R6", key, cc.call.Pos(), okID, what, "id argument is "+a.String()+", not the id of the container being created (r.request.create.Container.Id): ownership is recorded under another container")
			} else {
				p, isP := a.Root.(*ssa.Parameter)
				okID := isP && mf.plugin[p] && a.PathString() == "ContainerId"
				c.ok("R6", key, cc.call.Pos(), okID, what, "id argument is "+a.String()+", not the ContainerId of the plugin's update being applied: ownership is recorded under another container")
			}
		}
	}
}

func (ma *mergeAnalysis) ruleR7(c *Ctx) {
	m := c.M
	c.rule("R7", "keyed claims are keyed by the item written: the key argument is the map key written, or the key field of the very element appended; one key field per element kind, the same one its removal-marker test, the view/reply filters and the clear use", 9)
	keyField := map[string]map[string]bool{} // claim -> key fields used
	ord := map[string]int{}
	for _, mf := range ma.fns {
		for _, cc := range mf.claims {
			if cc.key == nil {
				continue
			}
			base := mf.fn.Name() + "/" + cc.name()
			ord[base]++
			key := base
			if ord[base] > 1 {
				key = fmt.Sprintf("%s#%d", base, ord[base])
			}
			what := fmt.Sprintf("key of %s in %s is the key of the element written under it", cc.name(), mf.fn.Name())
			ka := m.ap(cc.key)
			n, bad := 0, ""
			for _, w := range mf.writes {
				if !r1Spaces[w.space] || mf.classify(w) != "value" {
					continue
				}
				if g := innermostGuard(mf.claimGuards(w.block())); g != cc {
					continue
				}
				n++
				switch {
				case w.kind == "mapupdate":
					if w.key != cc.key {
						bad = "the map key written is not the key claimed"
					}
				case w.isAppnd && len(w.elems) == 1:
					ea := m.ap(w.elems[0])
					if !(ea.Root == ka.Root && len(ka.Path) == len(ea.Path)+1 && strings.HasPrefix(ka.PathString(), ea.PathString()) && sameIter(cc.key, w.elems[0])) {
						bad = fmt.Sprintf("the key claimed (%s) is not a field of the element appended (%s)", ka, ea)
					} else {
						if keyField[cc.name()] == nil {
							keyField[cc.name()] = map[string]bool{}
						}
						keyField[cc.name()][typeOfElem(w.elems[0])+"."+ka.Path[len(ka.Path)-1]] = true
					}
				default:
					bad = "unrecognised write shape under a keyed claim"
				}
			}
			if n == 0 {
				// claim-all loops: key must be a field of the loop element of the collection later written
				if coll, _ := rangeOf(cc.key); coll != nil && len(ka.Path) >= 1 {
					if keyField[cc.name()] == nil {
						keyField[cc.name()] = map[string]bool{}
					}
					keyField[cc.name()][typeOfElemColl(coll)+"."+ka.Path[len(ka.Path)-1]] = true
					c.add("R7", key, cc.call.Pos(), Discharged, what+" (claim-all loop over the collection)", "")
					continue
				}
				c.violate("R7", key, cc.call.Pos(), what, "keyed claim guards no value write")
				continue
			}
			c.ok("R7", key, cc.call.Pos(), bad == "", what, bad)
		}
	}
	// one key field per claim; agreement with the element's marker test
	for _, cl := range sortedKeys(keyField) {
		fs := sortedKeys(keyField[cl])
		c.ok("R7", "keyfield/"+cl, token.NoPos, len(fs) == 1, fmt.Sprintf("claim %s always uses the same key field (%s)", cl, strings.Join(fs, ",")),
			"different key fields are used for the same claim: the same item can be claimed under two keys")
		for _, f := range fs {
			parts := strings.SplitN(f, ".", 2)
			if len(parts) != 2 {
				continue
			}
			if mt := m.methodOpt(pkgAPI, parts[0], "IsMarkedForRemoval"); mt != nil {
				kf := markedKeyField(m, mt)
				c.ok("R7", "markerkey/"+parts[0], mt.Pos(), kf == parts[1], fmt.Sprintf("%s.IsMarkedForRemoval tests the field the claim is keyed by (%s)", parts[0], parts[1]),
					fmt.Sprintf("the removal-marker test uses field %q but ownership is keyed by %q: removing and re-setting an item does not refer to the same ledger entry", kf, parts[1]))
			}
		}
	}
	// clears use the same key as the filter test that found the entry
	for _, mf := range ma.fns {
		for _, cc := range mf.clears {
			if cc.key == nil {
				continue
			}
			what := fmt.Sprintf("%s in %s clears the key whose removal was requested", cc.name(), mf.fn.Name())
			// the clear is controlled by a lookup of the same key in a marked partition, or iterates a marked partition
			okc := false
			for _, cd := range controls(cc.call.Block()) {
				cd = normCond(cd)
				if ex, ok := cd.V.(*ssa.Extract); ok && ex.Index == 1 && cd.Pol {
					if lk, ok := ex.Tuple.(*ssa.Lookup); ok && m.valEq(lk.Index, cc.key) {
						if p, ok := mf.partition(lk.X); ok && p == 1 {
							okc = true
						}
					}
				}
			}
			if coll, isKey := rangeOf(cc.key); coll != nil && isKey {
				if p, ok := mf.partition(coll); ok && p == 1 {
					okc = true
				}
			}
			c.ok("R7", "clearkey/"+mf.fn.Name()+"/"+cc.name(), cc.call.Pos(), okc, what,
				"the key cleared is not the key found in the set of removal-marked keys")
		}
	}
}

func typeOfElem(v ssa.Value) string {
	t := v.Type()
	if p, ok := t.(*types.Pointer); ok {
		t = p.Elem()
	}
	if n, ok := types.Unalias(t).(*types.Named); ok {
		return n.Obj().Name()
	}
	return t.String()
}

func typeOfElemColl(coll ssa.Value) string {
	t := coll.Type().Underlying()
	switch x := t.(type) {
	case *types.Slice:
		return typeOfElemT(x.Elem())
	case *types.Map:
		return "map"
	}
	return t.String()
}

func typeOfElemT(t types.Type) string {
	if p, ok := t.(*types.Pointer); ok {
		t = p.Elem()
	}
	if n, ok := types.Unalias(t).(*types.Named); ok {
		return n.Obj().Name()
	}
	return t.String()
}

// ---------------------------------------------------------------- R8 (shared with C02, C05)

// ruleR8: claims are controlled only by the plugin's own response.
func (ma *mergeAnalysis) ruleR8(c *Ctx) {
	c.rule("R8", "claims come from the plugin's response only: every claim call is controlled by a presence test or range over the plugin's own value of the very item claimed, and by no condition derived from the accumulated reply, the request view, the staged copy or the ledger", 49)
	ord := map[string]int{}
	// no way around the claims: a merge function that claims at all leaves early with success only because
	// something is absent (nil, empty, not marked), never because of what a value is
	for _, mf := range ma.fns {
		if len(mf.claims) == 0 {
			continue
		}
		n := 0
		for _, r := range returnsOf(mf.fn) {
			nres := len(r.Results)
			if nres == 0 || !isNilConst(r.Results[nres-1]) {
				continue
			}
			for _, cd := range controls(r.Block()) {
				why := mf.nonPresenceCond(cd)
				if why == "" || !strings.Contains(why, "comparison of the plugin's value with another value") {
					continue
				}
				n++
				c.violate("R8", fmt.Sprintf("%s/early-success#%d", mf.fn.Name(), n), r.Pos(), mf.fn.Name()+" returns success early only for absent input",
					"this successful return skips the claims under "+why+": values equal to what is already there are accepted without a claim, so a second plugin setting the same item to the same value is not refused")
			}
		}
	}
	for _, mf := range ma.fns {
		distinct := map[string]bool{}
		for _, cc := range mf.claims {
			distinct[cc.name()] = true
		}
		for _, cc := range mf.claims {
			base := mf.fn.Name() + "/" + cc.name()
			ord[base]++
			key := base
			if ord[base] > 1 {
				key = fmt.Sprintf("%s#%d", base, ord[base])
			}
			what := fmt.Sprintf("%s in %s is controlled by the plugin's own value of that item", cc.name(), mf.fn.Name())
			item := ""
			if its := sortedKeys(ma.pairs[cc.name()]); len(its) == 1 {
				item = its[0]
			}
			conds := mf.itemControls(cc.call.Block())
			bad := ""
			found := false
			for i, cd := range conds {
				t := mf.condProv(cd)
				if t&(tAcc|tStaged|tOwn) != 0 {
					bad = fmt.Sprintf("controlling condition #%d (%s) is derived from accumulated state (%s), not from the plugin's response: a plugin is blamed for (or loses) a field according to what earlier plugins or the runtime's request contain", i+1, c.pos(cd.If.Pos()), t)
					break
				}
				for _, a := range mf.condSubjects(cd) {
					p, isP := a.Root.(*ssa.Parameter)
					if !isP || !mf.plugin[p] {
						continue
					}
					path := a.Path
					if len(path) >= 2 && path[0] == "Linux" && path[1] == "Resources" {
						path = path[2:]
					}
					it := itemOf(path)
					if it == "" {
						// the parameter itself is the item: only in single-item functions
						if len(distinct) == 1 {
							found = true
						}
					} else if item != "" && (it == item || "Linux."+it == item || strings.HasSuffix(item, "."+it)) {
						// the last form: a helper that is handed the sub-message (mem.Limit for Memory.Limit)
						found = true
					}
				}
			}
			if bad == "" && !found {
				bad = fmt.Sprintf("no presence test or range over the plugin's own %q controls this claim: the item is claimed whether or not the plugin set it", item)
			}
			// every controlling condition is a presence test (nil, "", empty), an iteration or a removal-marker
			// test: a condition on the *value* makes the claim (and the write under it) skip values the plugin did set
			if bad == "" {
				for _, cd := range conds {
					if why := mf.nonPresenceCond(cd); why != "" {
						bad = fmt.Sprintf("the claim additionally depends on %s (test at %s): a value the plugin set is skipped — neither claimed nor applied — or the marker form is not honoured for some inputs", why, c.pos(cd.If.Pos()))
					}
				}
			}
			c.ok("R8", key, cc.call.Pos(), bad == "", what, bad)
		}
	}
}

// itemControls returns the conditions controlling block b, nearest first,
// without the exit tests of loops that do not contain b (b runs after such a
// loop whatever it iterated over).
func (mf *mergeFn) itemControls(b *ssa.BasicBlock) []Cond {
	var out []Cond
	for _, cd := range controls(b) {
		ib := cd.If.Block()
		if inLoop(ib) && !canReach(b, ib) {
			continue
		}
		// `err != nil` tests of earlier steps are not conditions on the item
		if bo, ok := normCond(cd).V.(*ssa.BinOp); ok && isNilConst(bo.Y) && isErrorType(bo.X.Type()) {
			continue
		}
		out = append(out, cd)
	}
	return out
}

// condProv: provenance of a controlling condition; a map-range `ok` takes the
// provenance of the ranged collection.
func (mf *mergeFn) condProv(cd Cond) Tag {
	v := cd.V
	if ex, ok := v.(*ssa.Extract); ok {
		if nx, ok := ex.Tuple.(*ssa.Next); ok {
			if r, ok := nx.Iter.(*ssa.Range); ok {
				return mf.prov(r.X)
			}
		}
	}
	return mf.prov(v)
}

// condSubjects: access paths of the values a condition tests.  A range over
// a local partition is resolved to the elements inserted into it.
func (mf *mergeFn) condSubjects(cd Cond) []AP {
	m := mf.m
	var out []AP
	var coll func(x ssa.Value, d int)
	coll = func(x ssa.Value, d int) {
		if ins, local := mf.insertions(x); local && len(ins) > 0 && d < 3 {
			for _, i := range ins {
				if i.whole != nil {
					coll(i.whole, d+1)
				} else if i.elem != nil {
					a := m.ap(i.elem)
					if _, isP := a.Root.(*ssa.Parameter); !isP && i.key != nil {
						a = m.ap(i.key)
					}
					out = append(out, a)
				}
			}
			return
		}
		out = append(out, m.ap(x))
	}
	var leaf func(v ssa.Value)
	leaf = func(v ssa.Value) {
		switch x := v.(type) {
		case *ssa.Const:
		case *ssa.BinOp:
			leaf(x.X)
			leaf(x.Y)
		case *ssa.UnOp:
			if x.Op == token.NOT {
				leaf(x.X)
				return
			}
			out = append(out, m.ap(v))
		case *ssa.Call:
			if ln, ok := isBuiltinCall(x, "len"); ok {
				coll(ln.Call.Args[0], 0)
				return
			}
			out = append(out, m.ap(v))
		case *ssa.Extract:
			if nx, ok := x.Tuple.(*ssa.Next); ok {
				if r, ok := nx.Iter.(*ssa.Range); ok {
					coll(r.X, 0)
					return
				}
			}
			out = append(out, m.ap(v))
		default:
			out = append(out, m.ap(v))
		}
	}
	leaf(cd.V)
	return out
}

var _ = sort.Strings

// isResultRecv: v is the receiver parameter of a method of *result.
func isResultRecv(v ssa.Value) bool {
	p, ok := v.(*ssa.Parameter)
	if !ok || p.Parent() == nil || len(p.Parent().Params) == 0 || p.Parent().Params[0] != p {
		return false
	}
	n := recvNamed(p.Parent())
	return n != nil && tname(n.Obj()) == "result"
}

// resolveParamAP: the access path that every static caller passes for parameter prm of f (all callers must agree).
func resolveParamAP(m *Module, f *ssa.Function, prm *ssa.Parameter) (AP, bool) {
	idx := -1
	for i, p := range f.Params {
		if p == prm {
			idx = i
		}
	}
	if idx < 0 {
		return AP{}, false
	}
	var res AP
	n := 0
	for _, cs := range m.callersOf(f) {
		args := cs.Instr.Common().Args
		if idx >= len(args) {
			return AP{}, false
		}
		a := m.ap(args[idx])
		if n > 0 && (a.RootString() != res.RootString() || a.PathString() != res.PathString()) {
			return AP{}, false
		}
		res = a
		n++
	}
	return res, n > 0
}

// nonPresenceCond returns a description if the condition is not one of the accepted presence /
// iteration / marker shapes: x != nil, x != "", len(x) != 0 (or > 0, == 0), a range test, a
// removal-marker test, a lookup hit in a local partition, an error test, a comparison of ids.
func (mf *mergeFn) nonPresenceCond(cd Cond) string {
	n := normCond(cd)
	switch x := n.V.(type) {
	case *ssa.Extract:
		return "" // range ok / lookup ok / marker flag
	case *ssa.UnOp:
		return ""
	case *ssa.Call:
		if g := mf.m.callee(x.Common()); g != nil {
			switch g.String() {
			case "google.golang.org/protobuf/proto.Equal", "reflect.DeepEqual", "bytes.Equal", "strings.EqualFold", "maps.Equal", "slices.Equal":
				return "a comparison of the plugin's value with another value (" + g.Name() + ")"
			}
		}
		return "" // predicate call (isX)
	case *ssa.BinOp:
		// slice range loops: i < len(xs)
		if x.Op == token.LSS {
			if _, ok := isBuiltinCall(x.Y, "len"); ok {
				if _, isPhi := x.X.(*ssa.Phi); isPhi {
					return ""
				}
				if bo, ok := x.X.(*ssa.BinOp); ok && bo.Op == token.ADD {
					return ""
				}
			}
		}
		if isNilConst(x.Y) || isNilConst(x.X) {
			return ""
		}
		if s, ok := constString(x.Y); ok {
			if s == "" {
				// "" is how a plain string field says "not set"; the Value of an optional wrapper is not:
				// there presence is the wrapper itself, and an explicitly set empty string is a value
				if a := mf.m.ap(x.X); len(a.Path) >= 2 && a.Path[len(a.Path)-1] == "Value" {
					return "the optional field's value being compared with \"\" (presence is the wrapper being non-nil)"
				}
				return ""
			}
			return fmt.Sprintf("a comparison with the constant %q", s)
		}
		if k, ok := constInt(x.Y); ok {
			if _, isLen := isBuiltinCall(x.X, "len"); isLen {
				if k == 0 {
					return ""
				}
				return fmt.Sprintf("the length being compared with %d", k)
			}
			return fmt.Sprintf("a numeric comparison of the value with %d", k)
		}
		// comparison of two non-constant values (ids) is fine
		return ""
	}
	return ""
}
