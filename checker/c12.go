package main

// C12: agreement of the tables both wire codecs are generated from.  Works on
// the typed AST of pkg/api; the descriptor is decoded from the *source* of the
// rawDesc byte literal (the package is never initialised or executed).

import (
	"fmt"
	"go/ast"
	"go/token"
	"go/types"
	"reflect"
	"sort"
	"strconv"
	"strings"
	"unicode"
)

func init() {
	register("C12", &propInfo{
		run: func(c *Ctx) {
			t := loadWireTables(c)
			ruleW1(c, t)
			ruleW2(c, t)
			ruleW3W4W5(c, t)
			ruleW6(c, t)
			ruleW8(c, t)
			ruleT1desc(c, t)
		},
		explanation: "Round-trip equality of encodings is a statement about values and is not decided.  Decided is that the tables both codecs are generated from agree, exhaustively: the FileDescriptorProto decoded from the rawDesc byte literal and the protobuf struct tags of the generated structs give the same (name, number, wire kind, repeated/map) for every field of every message; every UnmarshalVT has exactly the message's field numbers as cases, each checking the field's wire type and assigning only that field; every MarshalToSizedBufferVT block writes exactly one field with that field's tag bytes, in descending field-number order; every SizeVT block accounts for the same field with the same tag length and the same presence predicate as the marshal block; message-typed fields use nil-presence and scalars zero-suppression; ttRPC server registrations, client calls and the WASM host's exported-function calls cover exactly the descriptor's service methods, each routed to the same-named method with the descriptor's request type, the WASM binding using MarshalVT/UnmarshalVT; the Event enum of the descriptor equals the Go constants. Loops over repeated fields in the back-to-front encoder run from the last element to the first. No field is zig-zag encoded; map-entry marks are taken per entry.",
		notDecided: []string{
			"varint/length arithmetic inside the helpers; UTF-8 checks; unknown fields",
			"that protoimpl honours the descriptor (trusted)",
			"equality of decoded values",
		},
	})
}

// ---- minimal protobuf wire reader

type wfield struct {
	num  int
	wt   int
	v    uint64
	data []byte
}

func readVarint(b []byte) (uint64, int, bool) {
	var x uint64
	for i := 0; i < len(b) && i < 10; i++ {
		x |= uint64(b[i]&0x7f) << (7 * uint(i))
		if b[i] < 0x80 {
			return x, i + 1, true
		}
	}
	return 0, 0, false
}

func parseMsg(b []byte) []wfield {
	var out []wfield
	for len(b) > 0 {
		tag, n, ok := readVarint(b)
		if !ok {
			panic(anchorErr{"descriptor literal: malformed varint"})
		}
		b = b[n:]
		f := wfield{num: int(tag >> 3), wt: int(tag & 7)}
		switch f.wt {
		case 0:
			f.v, n, ok = readVarint(b)
			if !ok {
				panic(anchorErr{"descriptor literal: malformed varint"})
			}
			b = b[n:]
		case 2:
			l, n, ok := readVarint(b)
			if !ok || int(l) > len(b)-n {
				panic(anchorErr{"descriptor literal: malformed length"})
			}
			b = b[n:]
			f.data = b[:l]
			b = b[l:]
		case 1:
			b = b[8:]
		case 5:
			b = b[4:]
		default:
			panic(anchorErr{"descriptor literal: unknown wire type"})
		}
		out = append(out, f)
	}
	return out
}

type fdesc struct {
	name     string
	num      int
	typ      int
	label    int
	typeName string
}

type mdesc struct {
	name   string
	fields []fdesc
	mapEnt bool
}

type sdesc struct {
	name    string
	methods []mdescM
}

type mdescM struct{ name, in, out string }

type tagf struct {
	goName string
	num    int
	wire   string
	rep    bool
	pname  string
	goType types.Type
	pos    token.Pos
}

type wireTables struct {
	pkgName  string
	msgs     map[string]*mdesc
	enums    map[string]map[string]int64
	services []sdesc
	tags     map[string][]tagf
	files    []*ast.File
	info     *types.Info
	funcs    map[string]map[string]*ast.FuncDecl // recv type -> method name -> decl
	plain    map[string]*ast.FuncDecl
}

func decodeMessage(prefix string, b []byte, out map[string]*mdesc) {
	m := &mdesc{}
	var nested [][]byte
	for _, f := range parseMsg(b) {
		switch f.num {
		case 1:
			m.name = string(f.data)
		case 2:
			fd := fdesc{}
			for _, g := range parseMsg(f.data) {
				switch g.num {
				case 1:
					fd.name = string(g.data)
				case 3:
					fd.num = int(g.v)
				case 4:
					fd.label = int(g.v)
				case 5:
					fd.typ = int(g.v)
				case 6:
					fd.typeName = string(g.data)
				}
			}
			m.fields = append(m.fields, fd)
		case 3:
			nested = append(nested, f.data)
		case 7:
			for _, g := range parseMsg(f.data) {
				if g.num == 7 && g.v != 0 {
					m.mapEnt = true
				}
			}
		}
	}
	full := prefix + m.name
	out[full] = m
	for _, n := range nested {
		decodeMessage(full+".", n, out)
	}
}

func wireOf(typ int) int {
	switch typ {
	case 9, 11, 12:
		return 2
	case 1, 6, 16:
		return 1
	case 2, 7, 15:
		return 5
	default:
		return 0
	}
}

func loadWireTables(c *Ctx) *wireTables {
	p := c.M.tpkg(pkgAPI)
	t := &wireTables{msgs: map[string]*mdesc{}, enums: map[string]map[string]int64{}, tags: map[string][]tagf{}, files: p.Syntax, info: p.TypesInfo,
		funcs: map[string]map[string]*ast.FuncDecl{}, plain: map[string]*ast.FuncDecl{}}
	var raw []byte
	for _, f := range p.Syntax {
		for _, d := range f.Decls {
			switch x := d.(type) {
			case *ast.GenDecl:
				for _, s := range x.Specs {
					switch sp := s.(type) {
					case *ast.ValueSpec:
						if len(sp.Names) == 1 && strings.HasSuffix(sp.Names[0].Name, "_rawDesc") && len(sp.Values) == 1 {
							if cl, ok := sp.Values[0].(*ast.CompositeLit); ok {
								for _, e := range cl.Elts {
									bl, ok := e.(*ast.BasicLit)
									if !ok {
										panic(anchorErr{"descriptor literal has a non-literal element"})
									}
									v, err := strconv.ParseUint(bl.Value, 0, 8)
									if err != nil {
										panic(anchorErr{"descriptor literal element: " + err.Error()})
									}
									raw = append(raw, byte(v))
								}
							}
						}
					case *ast.TypeSpec:
						st, ok := sp.Type.(*ast.StructType)
						if !ok {
							continue
						}
						isMsg := false
						for _, fl := range st.Fields.List {
							if len(fl.Names) == 1 && fl.Names[0].Name == "unknownFields" {
								isMsg = true
							}
						}
						if !isMsg {
							continue
						}
						t.tags[sp.Name.Name] = nil
						for _, fl := range st.Fields.List {
							if fl.Tag == nil || len(fl.Names) != 1 {
								continue
							}
							tv, _ := strconv.Unquote(fl.Tag.Value)
							pbt := reflect.StructTag(tv).Get("protobuf")
							if pbt == "" {
								continue
							}
							parts := strings.Split(pbt, ",")
							if len(parts) < 3 {
								continue
							}
							n, _ := strconv.Atoi(parts[1])
							tf := tagf{goName: fl.Names[0].Name, num: n, wire: parts[0], rep: parts[2] == "rep", pos: fl.Pos()}
							for _, pp := range parts[3:] {
								if strings.HasPrefix(pp, "name=") {
									tf.pname = pp[5:]
								}
							}
							if tvv, ok := p.TypesInfo.Types[fl.Type]; ok {
								tf.goType = tvv.Type
							}
							t.tags[sp.Name.Name] = append(t.tags[sp.Name.Name], tf)
						}
					}
				}
			case *ast.FuncDecl:
				if x.Recv == nil {
					t.plain[x.Name.Name] = x
					continue
				}
				rt := x.Recv.List[0].Type
				if se, ok := rt.(*ast.StarExpr); ok {
					rt = se.X
				}
				if id, ok := rt.(*ast.Ident); ok {
					if t.funcs[id.Name] == nil {
						t.funcs[id.Name] = map[string]*ast.FuncDecl{}
					}
					t.funcs[id.Name][x.Name.Name] = x
				}
			}
		}
	}
	if len(raw) == 0 {
		panic(anchorErr{"rawDesc byte literal not found in pkg/api"})
	}
	for _, f := range parseMsg(raw) {
		switch f.num {
		case 2:
			t.pkgName = string(f.data)
		case 4:
			decodeMessage("", f.data, t.msgs)
		case 5:
			name := ""
			vals := map[string]int64{}
			for _, g := range parseMsg(f.data) {
				switch g.num {
				case 1:
					name = string(g.data)
				case 2:
					vn, vv := "", int64(0)
					for _, h := range parseMsg(g.data) {
						if h.num == 1 {
							vn = string(h.data)
						}
						if h.num == 2 {
							vv = int64(h.v)
						}
					}
					vals[vn] = vv
				}
			}
			t.enums[name] = vals
		case 6:
			sd := sdesc{}
			for _, g := range parseMsg(f.data) {
				if g.num == 1 {
					sd.name = string(g.data)
				}
				if g.num == 2 {
					mm := mdescM{}
					for _, h := range parseMsg(g.data) {
						switch h.num {
						case 1:
							mm.name = string(h.data)
						case 2:
							mm.in = string(h.data)
						case 3:
							mm.out = string(h.data)
						}
					}
					sd.methods = append(sd.methods, mm)
				}
			}
			t.services = append(t.services, sd)
		}
	}
	c.note("descriptor: %d bytes, %d messages, %d enums, %d services; %d generated message structs", len(raw), len(t.msgs), len(t.enums), len(t.services), len(t.tags))
	return t
}

func goMsgName(name string) string { return strings.ReplaceAll(name, ".", "_") }

func (t *wireTables) sortedMsgs() []string {
	var ns []string
	for n, m := range t.msgs {
		if !m.mapEnt {
			ns = append(ns, n)
		}
	}
	sort.Strings(ns)
	return ns
}

func ruleW1(c *Ctx, t *wireTables) {
	c.rule("W1", "descriptor <-> struct tags: the FileDescriptorProto decoded from the rawDesc literal and the protobuf struct tags give the same (field name, number, wire kind, repeated/map) for every field of every message, and every message has its struct", 160)
	for _, name := range t.sortedMsgs() {
		m := t.msgs[name]
		tf, ok := t.tags[goMsgName(name)]
		if !ok {
			c.violate("W1", name, token.NoPos, "message "+name+" has a generated struct", "no struct with protobuf tags for this descriptor message")
			continue
		}
		byNum := map[int]tagf{}
		for _, x := range tf {
			byNum[x.num] = x
		}
		if len(tf) != len(m.fields) {
			c.violate("W1", name+"/count", token.NoPos, "message "+name+" has as many tagged fields as the descriptor", fmt.Sprintf("%d tagged struct fields, %d descriptor fields", len(tf), len(m.fields)))
		}
		for _, f := range m.fields {
			x, ok := byNum[f.num]
			key := name + "." + f.name
			what := fmt.Sprintf("field %s (#%d) of %s agrees between descriptor and struct tag", f.name, f.num, name)
			if !ok {
				c.violate("W1", key, token.NoPos, what, fmt.Sprintf("no struct field tagged with number %d: the reflection codec and the descriptor disagree", f.num))
				continue
			}
			bad := ""
			wantBytes := wireOf(f.typ) == 2
			switch {
			case x.pname != f.name:
				bad = fmt.Sprintf("tag name %q, descriptor name %q", x.pname, f.name)
			case (x.wire == "bytes") != wantBytes:
				bad = fmt.Sprintf("tag wire kind %q does not match descriptor type %d", x.wire, f.typ)
			case x.rep != (f.label == 3):
				bad = "repeated/singular differs"
			case f.typ == 17 || f.typ == 18 || strings.HasPrefix(x.wire, "zigzag"):
				// sint32/sint64: same wire type as a plain varint, different value encoding; the specialised codec
				// writes and reads plain varints for every integer field (none of its field blocks zig-zags)
				bad = fmt.Sprintf("the field is zig-zag encoded for the reflection codec (descriptor type %d, tag %q) but the specialised codec encodes plain varints: the two encodings disagree on every non-zero value", f.typ, x.wire)
			}
			c.ok("W1", key, x.pos, bad == "", what, bad)
		}
	}
	// no struct without descriptor message
	for n := range t.tags {
		found := false
		for name, m := range t.msgs {
			if !m.mapEnt && goMsgName(name) == n {
				found = true
			}
		}
		if !found {
			c.violate("W1", "struct/"+n, token.NoPos, "generated struct "+n+" has a descriptor message", "no descriptor message for this struct")
		}
	}
}

// mFieldsIn: names of m.<Field> selectors under node (m = receiver name).
func mFieldsIn(n ast.Node, recv string) []string {
	seen := map[string]bool{}
	var out []string
	ast.Inspect(n, func(x ast.Node) bool {
		if se, ok := x.(*ast.SelectorExpr); ok {
			if id, ok := se.X.(*ast.Ident); ok && id.Name == recv && !seen[se.Sel.Name] {
				seen[se.Sel.Name] = true
				out = append(out, se.Sel.Name)
			}
		}
		return true
	})
	return out
}

func recvName(fd *ast.FuncDecl) string {
	if fd.Recv != nil && len(fd.Recv.List) == 1 && len(fd.Recv.List[0].Names) == 1 {
		return fd.Recv.List[0].Names[0].Name
	}
	return "m"
}

func ruleW2(c *Ctx, t *wireTables) {
	c.rule("W2b", "varint bound: every varint decoding loop of every UnmarshalVT gives up at the same shift bound, 64 bits — the width both encoders use for every integer type, including sign-extended negative int32 values", 1)
	shiftBounds := map[string]int{}
	var shiftOdd [][2]string
	var shiftPos token.Pos
	defer func() {
		detail := ""
		for _, o := range shiftOdd {
			detail += fmt.Sprintf("UnmarshalVT of %s stops a varint at shift >= %s; ", o[0], o[1])
		}
		c.ok("W2b", "shift-bound", shiftPos, len(shiftOdd) == 0 && shiftBounds["64"] > 100, fmt.Sprintf("all %d varint loops use the 64-bit bound", shiftBounds["64"]),
			detail+"values that the encoders write with more bytes (negative int32/enum values are sign-extended to 10 bytes) are rejected as overflow by the specialised decoder but accepted by the reflection decoder")
	}()
	c.rule("W2", "vtproto unmarshal: in each UnmarshalVT the switch over the field number has exactly the message's field numbers; each case checks that field's wire type and assigns only that field", 160)
	for _, name := range t.sortedMsgs() {
		gn := goMsgName(name)
		tf := t.tags[gn]
		fd := t.funcs[gn]["UnmarshalVT"]
		if fd == nil {
			c.violate("W2", name, token.NoPos, name+" has an UnmarshalVT", "no UnmarshalVT method: WASM plugins cannot receive this message")
			continue
		}
		recv := recvName(fd)
		byNum := map[int]tagf{}
		for _, x := range tf {
			byNum[x.num] = x
		}
		seen := map[int]bool{}
		ast.Inspect(fd.Body, func(n ast.Node) bool {
			sw, ok := n.(*ast.SwitchStmt)
			if !ok {
				return true
			}
			id, ok := sw.Tag.(*ast.Ident)
			if !ok || id.Name != "fieldNum" {
				return true
			}
			for _, cl := range sw.Body.List {
				cc := cl.(*ast.CaseClause)
				if cc.List == nil {
					continue
				}
				bl, ok := cc.List[0].(*ast.BasicLit)
				if !ok {
					continue
				}
				num, _ := strconv.Atoi(bl.Value)
				seen[num] = true
				x, ok := byNum[num]
				key := fmt.Sprintf("%s/case%d", name, num)
				if !ok {
					c.violate("W2", key, cc.Pos(), fmt.Sprintf("UnmarshalVT of %s only has cases for the message's fields", name), fmt.Sprintf("case %d is not a field number of the message", num))
					continue
				}
				var wires []int
				for _, st := range cc.Body {
					ast.Inspect(st, func(n ast.Node) bool {
						if be, ok := n.(*ast.BinaryExpr); ok {
							if id, ok := be.X.(*ast.Ident); ok && id.Name == "wireType" && be.Op == token.NEQ {
								if l, ok := be.Y.(*ast.BasicLit); ok {
									w, _ := strconv.Atoi(l.Value)
									wires = append(wires, w)
								}
							}
						}
						return true
					})
				}
				var flds []string
				for _, st := range cc.Body {
					flds = append(flds, mFieldsIn(st, recv)...)
				}
				flds = uniq(flds)
				wantW := 0
				if x.wire == "bytes" {
					wantW = 2
				} else if x.wire == "fixed64" {
					wantW = 1
				} else if x.wire == "fixed32" {
					wantW = 5
				}
				bad := ""
				switch {
				case len(flds) != 1 || flds[0] != x.goName:
					bad = fmt.Sprintf("the case for field number %d touches %v instead of %s only: bytes of one field are decoded into another", num, flds, x.goName)
				case len(wires) == 0 || wires[0] != wantW:
					// packed repeated scalars accept two wire types; the first test is the field's own
					ok2 := false
					for _, w := range wires {
						if w == wantW {
							ok2 = true
						}
					}
					if !ok2 {
						bad = fmt.Sprintf("wire type checked %v, want %d", wires, wantW)
					}
				}
				c.ok("W2", key, cc.Pos(), bad == "", fmt.Sprintf("UnmarshalVT of %s decodes field #%d into %s with its wire type", name, num, x.goName), bad)
			}
			return false
		})
		// W2b: varint decoding loops share one overflow bound
		ast.Inspect(fd.Body, func(n ast.Node) bool {
			be, ok := n.(*ast.BinaryExpr)
			if !ok || be.Op != token.GEQ {
				return true
			}
			id, ok := be.X.(*ast.Ident)
			bl, ok2 := be.Y.(*ast.BasicLit)
			if ok && ok2 && id.Name == "shift" {
				shiftBounds[bl.Value]++
				if bl.Value != "64" {
					shiftOdd = append(shiftOdd, [2]string{name, bl.Value})
					shiftPos = be.Pos()
				}
			}
			return true
		})
		for _, x := range tf {
			if !seen[x.num] {
				c.violate("W2", fmt.Sprintf("%s/case%d", name, x.num), fd.Pos(), fmt.Sprintf("UnmarshalVT of %s has a case for field #%d (%s)", name, x.num, x.goName), "no case for this field number: the field is silently skipped when a WASM plugin message is decoded")
			}
		}
	}
}

func uniq(xs []string) []string {
	seen := map[string]bool{}
	var out []string
	for _, x := range xs {
		if !seen[x] && x != "unknownFields" {
			seen[x] = true
			out = append(out, x)
		}
	}
	return out
}

// presenceKind of a condition expression for field fld of receiver recv; lvar is the
// field that a preceding `l = len(m.X)` refers to.
func presenceKind(e ast.Expr, recv, lfield string) (string, string) {
	switch x := e.(type) {
	case *ast.BinaryExpr:
		sel := func(e ast.Expr) string {
			if se, ok := e.(*ast.SelectorExpr); ok {
				if id, ok := se.X.(*ast.Ident); ok && id.Name == recv {
					return se.Sel.Name
				}
			}
			return ""
		}
		if f := sel(x.X); f != "" {
			if id, ok := x.Y.(*ast.Ident); ok && id.Name == "nil" && x.Op == token.NEQ {
				return "nil", f
			}
			if l, ok := x.Y.(*ast.BasicLit); ok && l.Value == "0" && x.Op == token.NEQ {
				return "zero", f
			}
		}
		if ce, ok := x.X.(*ast.CallExpr); ok {
			if id, ok := ce.Fun.(*ast.Ident); ok && id.Name == "len" && len(ce.Args) == 1 {
				if f := sel(ce.Args[0]); f != "" && x.Op == token.GTR {
					return "len", f
				}
			}
		}
		if id, ok := x.X.(*ast.Ident); ok && id.Name == "l" && x.Op == token.GTR && lfield != "" {
			return "len", lfield
		}
	case *ast.SelectorExpr:
		if id, ok := x.X.(*ast.Ident); ok && id.Name == recv {
			return "bool", x.Sel.Name
		}
	}
	return "", ""
}

func wantPresence(t types.Type) string {
	if t == nil {
		return ""
	}
	switch u := t.Underlying().(type) {
	case *types.Pointer:
		return "nil"
	case *types.Slice, *types.Map:
		return "len"
	case *types.Basic:
		switch {
		case u.Kind() == types.String:
			return "len"
		case u.Kind() == types.Bool:
			return "bool"
		case u.Info()&types.IsNumeric != 0:
			return "zero"
		}
	}
	return ""
}

type fieldBlock struct {
	field    string
	presence string
	tagBytes []uint64 // in write order
	tagLen   int      // SizeVT: the constant addend
	pos      token.Pos
}

func ruleW3W4W5(c *Ctx, t *wireTables) {
	c.rule("W3", "vtproto marshal: in each MarshalToSizedBufferVT every top-level block mentions exactly one field and ends by writing that field's tag bytes (varint of number<<3|wire); blocks appear in descending field-number order", 160)
	c.rule("W4", "size = what is written: in each SizeVT every block mentions exactly one field, its constant tag length equals the number of tag bytes the marshal block writes, and its presence predicate is the marshal block's", 160)
	c.rule("W4b", "length/prefix pairing: in every sum of a SizeVT block each length addend (len(x), l, mapEntrySize) occurs exactly as often as the varint size of that same length (sov(uint64(len(x))) ...), in particular for both key and value of a map entry", 100)
	c.rule("W5", "presence: message-typed fields use nil-presence, strings/bytes/repeated/map fields length-presence, numeric and enum fields zero-suppression, bools their value — so that unset vs zero survives for the optional wrappers", 160)
	for _, name := range t.sortedMsgs() {
		gn := goMsgName(name)
		tf := t.tags[gn]
		byName := map[string]tagf{}
		for _, x := range tf {
			byName[x.goName] = x
		}
		mf := t.funcs[gn]["MarshalToSizedBufferVT"]
		sf := t.funcs[gn]["SizeVT"]
		if mf == nil || sf == nil {
			c.violate("W3", name, token.NoPos, name+" has MarshalToSizedBufferVT and SizeVT", "generated method missing")
			continue
		}
		recv := recvName(mf)
		var mblocks []fieldBlock
		for _, st := range mf.Body.List {
			ifs, ok := st.(*ast.IfStmt)
			if !ok {
				continue
			}
			flds := uniq(mFieldsIn(ifs, recv))
			if len(flds) == 0 {
				continue // m == nil, unknownFields
			}
			kind, pf := presenceKind(ifs.Cond, recv, "")
			fb := fieldBlock{pos: ifs.Pos(), presence: kind}
			if len(flds) != 1 {
				c.violate("W3", name+"/block@"+flds[0], ifs.Pos(), "marshal block writes exactly one field", fmt.Sprintf("block mentions fields %v", flds))
				continue
			}
			fb.field = flds[0]
			if pf != "" && pf != fb.field {
				fb.presence = ""
			}
			// trailing run of dAtA[i] = const
			var run []uint64
			var walk func(stmts []ast.Stmt)
			walk = func(stmts []ast.Stmt) {
				for _, s := range stmts {
					switch y := s.(type) {
					case *ast.AssignStmt:
						if len(y.Lhs) == 1 {
							if ix, ok := y.Lhs[0].(*ast.IndexExpr); ok {
								if id, ok := ix.X.(*ast.Ident); ok && id.Name == "dAtA" {
									if bl, ok := y.Rhs[0].(*ast.BasicLit); ok {
										v, _ := strconv.ParseUint(bl.Value, 0, 64)
										run = append(run, v)
										continue
									}
									run = nil // non-constant byte (bool payload etc.)
									continue
								}
							}
						}
						// i = encodeVarint(...) and similar reset the run
						if len(y.Lhs) == 1 {
							if id, ok := y.Lhs[0].(*ast.Ident); ok && id.Name == "i" {
								run = nil
							}
						}
					case *ast.IncDecStmt:
						// i-- between tag bytes
					case *ast.ForStmt:
						run = nil
						walk(y.Body.List)
					case *ast.RangeStmt:
						run = nil
						walk(y.Body.List)
					case *ast.IfStmt:
						// error checks inside the block do not reset; nested data branches do
						if y.Else != nil {
							// payload bytes chosen by a data branch (bool encoding): not tag bytes
							run = nil
						}
					case *ast.ExprStmt:
						run = nil
					default:
					}
				}
			}
			walk(ifs.Body.List)
			fb.tagBytes = run
			mblocks = append(mblocks, fb)
		}
		// SizeVT blocks
		wb := 0
		srecv := recvName(sf)
		sblocks := map[string]fieldBlock{}
		lfield := ""
		for _, st := range sf.Body.List {
			switch y := st.(type) {
			case *ast.AssignStmt:
				// l = len(m.X)
				if len(y.Lhs) == 1 {
					if id, ok := y.Lhs[0].(*ast.Ident); ok && id.Name == "l" {
						fl := uniq(mFieldsIn(y.Rhs[0], srecv))
						if len(fl) == 1 {
							lfield = fl[0]
						}
					}
				}
			case *ast.IfStmt:
				flds := uniq(mFieldsIn(y, srecv))
				kind, pf := presenceKind(y.Cond, srecv, lfield)
				fld := ""
				if len(flds) == 1 {
					fld = flds[0]
				} else if len(flds) == 0 && pf != "" {
					fld = pf
				}
				if fld == "" {
					if len(flds) > 1 {
						c.violate("W4", name+"/block@"+flds[0], y.Pos(), "size block accounts for exactly one field", fmt.Sprintf("block mentions fields %v", flds))
					}
					continue
				}
				if pf != "" && pf != fld {
					kind = ""
				}
				fb := fieldBlock{field: fld, presence: kind, pos: y.Pos(), tagLen: -1}
				ast.Inspect(y.Body, func(n ast.Node) bool {
					as, ok := n.(*ast.AssignStmt)
					if !ok || as.Tok != token.ADD_ASSIGN {
						return true
					}
					if id, ok := as.Lhs[0].(*ast.Ident); !ok || id.Name != "n" {
						return true
					}
					// flatten the top-level + chain
					var adds []ast.Expr
					var flat func(e ast.Expr)
					flat = func(e ast.Expr) {
						if be, ok := e.(*ast.BinaryExpr); ok && be.Op == token.ADD {
							flat(be.X)
							flat(be.Y)
							return
						}
						adds = append(adds, e)
					}
					flat(as.Rhs[0])
					for _, a := range adds {
						if bl, ok := a.(*ast.BasicLit); ok && bl.Kind == token.INT {
							v, _ := strconv.Atoi(bl.Value)
							fb.tagLen = v
						}
					}
					return true
				})
				// W4b: in every sum, a length addend and its varint-size term refer to the same thing
				ast.Inspect(y.Body, func(n ast.Node) bool {
					var rhs ast.Expr
					switch as := n.(type) {
					case *ast.AssignStmt:
						if len(as.Rhs) == 1 {
							rhs = as.Rhs[0]
						}
					}
					if rhs == nil {
						return true
					}
					var adds []ast.Expr
					var flat func(e ast.Expr)
					flat = func(e ast.Expr) {
						if be, ok := e.(*ast.BinaryExpr); ok && be.Op == token.ADD {
							flat(be.X)
							flat(be.Y)
							return
						}
						adds = append(adds, e)
					}
					flat(rhs)
					if len(adds) < 2 {
						return true
					}
					lens := map[string]int{}
					sovs := map[string]int{}
					for _, a := range adds {
						s := types.ExprString(a)
						if strings.HasPrefix(s, "len(") || s == "l" || s == "mapEntrySize" {
							lens[s]++
						}
						if strings.HasPrefix(s, "sov(uint64(") && strings.HasSuffix(s, "))") {
							inner := strings.TrimSuffix(strings.TrimPrefix(s, "sov(uint64("), "))")
							if strings.HasPrefix(inner, "len(") || inner == "l" || inner == "mapEntrySize" {
								sovs[inner]++
							}
						}
					}
					bad := ""
					for k, n := range lens {
						if sovs[k] != n {
							bad = fmt.Sprintf("the sum adds %s but its length prefix is sized %d time(s)", k, sovs[k])
						}
					}
					for k, n := range sovs {
						if lens[k] != n {
							bad = fmt.Sprintf("the sum sizes a length prefix for %s but adds that length %d time(s)", k, lens[k])
						}
					}
					if len(lens)+len(sovs) > 0 {
						wb++
						c.ok("W4b", fmt.Sprintf("%s.%s/sum#%d", name, fld, wb), n.Pos(), bad == "", fmt.Sprintf("SizeVT of %s.%s pairs every length with the varint size of that same length", name, fld),
							bad+": SizeVT disagrees with what MarshalToSizedBufferVT writes whenever the two lengths need prefixes of different width, so marshalling panics or produces a truncated buffer")
					}
					return true
				})
				sblocks[fld] = fb
				lfield = ""
			}
		}
		// checks
		prevNum := 1 << 30
		seenM := map[string]bool{}
		for _, fb := range mblocks {
			x, ok := byName[fb.field]
			key := name + "." + fb.field
			if !ok {
				c.violate("W3", key, fb.pos, "marshal block belongs to a field of the message", "block mentions "+fb.field+", which has no protobuf tag")
				continue
			}
			seenM[fb.field] = true
			wt := uint64(0)
			switch x.wire {
			case "bytes":
				wt = 2
			case "fixed64":
				wt = 1
			case "fixed32":
				wt = 5
			}
			// packed repeated scalars are length-delimited on the wire
			if x.rep && x.wire != "bytes" {
				wt = 2
			}
			want := uint64(x.num)<<3 | wt
			// tag bytes were written high byte first (i-- then store): reverse to get varint order
			var got uint64
			bytesN := len(fb.tagBytes)
			for i := 0; i < bytesN; i++ {
				b := fb.tagBytes[bytesN-1-i]
				got |= (b & 0x7f) << (7 * uint(i))
			}
			bad := ""
			if bytesN == 0 {
				bad = "no constant tag bytes found at the end of the block"
			} else if got != want {
				bad = fmt.Sprintf("the block writes tag 0x%x (field %d, wire %d) but field %s is number %d with wire type %d: the reflection decoder puts these bytes into another field or rejects them", got, got>>3, got&7, fb.field, x.num, wt)
			} else if x.num >= prevNum {
				bad = "blocks are not in descending field-number order (the buffer is filled backwards, so fields would be emitted out of canonical order)"
			}
			prevNum = x.num
			c.ok("W3", key, fb.pos, bad == "", fmt.Sprintf("marshal block of %s.%s writes tag for field #%d", name, fb.field, x.num), bad)
			// W4
			sb, ok := sblocks[fb.field]
			if !ok {
				c.violate("W4", key, fb.pos, fmt.Sprintf("SizeVT of %s accounts for %s", name, fb.field), "no size block for this field: the buffer is too small and marshalling fails or truncates")
			} else {
				bad4 := ""
				wantLen := bytesN
				if fb.presence == "bool" && !x.rep {
					wantLen++ // the one-byte bool payload is part of the constant
				}
				if sb.tagLen != wantLen {
					bad4 = fmt.Sprintf("SizeVT adds %d tag byte(s) but the marshal block writes %d", sb.tagLen, bytesN)
				} else if sb.presence != fb.presence || sb.presence == "" {
					bad4 = fmt.Sprintf("presence predicate differs: size uses %q, marshal uses %q", sb.presence, fb.presence)
				}
				c.ok("W4", key, sb.pos, bad4 == "", fmt.Sprintf("SizeVT of %s counts %s exactly as it is written", name, fb.field), bad4)
			}
			// W5
			wp := wantPresence(x.goType)
			c.ok("W5", key, fb.pos, wp != "" && fb.presence == wp, fmt.Sprintf("%s.%s uses %s-presence as its type requires", name, fb.field, wp),
				fmt.Sprintf("marshal uses %q presence for a field of type %v (want %q): an unset optional is encoded as set, or a set zero value is dropped", fb.presence, x.goType, wp))
		}
		for _, x := range tf {
			if !seenM[x.goName] {
				c.violate("W3", name+"."+x.goName, mf.Pos(), fmt.Sprintf("MarshalToSizedBufferVT of %s writes field %s", name, x.goName), "no marshal block for this field: it is never sent to WASM plugins")
			}
		}
	}
}

func snake(s string) string {
	var b strings.Builder
	for i, r := range s {
		if unicode.IsUpper(r) {
			if i > 0 {
				b.WriteByte('_')
			}
			b.WriteRune(unicode.ToLower(r))
		} else {
			b.WriteRune(r)
		}
	}
	return b.String()
}

func ruleW6(c *Ctx, t *wireTables) {
	c.rule("W6", "services: the ttRPC server registrations and client calls cover exactly the descriptor's service methods, under the descriptor's full service name, each routed to the method of the same name with the descriptor's request type; the WASM host calls the exported function named after the method and uses MarshalVT / UnmarshalVT", 30)
	short := func(s string) string {
		return s[strings.LastIndex(s, ".")+1:]
	}
	for _, sd := range t.services {
		full := t.pkgName + "." + sd.name
		reg := t.plain["Register"+sd.name+"Service"]
		if reg == nil {
			c.violate("W6", sd.name+"/register", token.NoPos, "service "+sd.name+" has a ttRPC registration function", "Register"+sd.name+"Service not found")
			continue
		}
		// server side
		srvName := ""
		srv := map[string][2]string{} // key -> (method called, request type)
		ast.Inspect(reg.Body, func(n ast.Node) bool {
			switch x := n.(type) {
			case *ast.CallExpr:
				if se, ok := x.Fun.(*ast.SelectorExpr); ok && se.Sel.Name == "RegisterService" && len(x.Args) >= 1 {
					if bl, ok := x.Args[0].(*ast.BasicLit); ok {
						srvName, _ = strconv.Unquote(bl.Value)
					}
				}
			case *ast.KeyValueExpr:
				kl, ok := x.Key.(*ast.BasicLit)
				fl, ok2 := x.Value.(*ast.FuncLit)
				if !ok || !ok2 {
					return true
				}
				k, _ := strconv.Unquote(kl.Value)
				called, reqT := "", ""
				ast.Inspect(fl.Body, func(n ast.Node) bool {
					switch y := n.(type) {
					case *ast.ValueSpec:
						if len(y.Names) == 1 && y.Names[0].Name == "req" {
							if id, ok := y.Type.(*ast.Ident); ok {
								reqT = id.Name
							}
						}
					case *ast.ReturnStmt:
						if len(y.Results) == 1 {
							if ce, ok := y.Results[0].(*ast.CallExpr); ok {
								if se, ok := ce.Fun.(*ast.SelectorExpr); ok {
									if id, ok := se.X.(*ast.Ident); ok && id.Name == "svc" {
										called = se.Sel.Name
									}
								}
							}
						}
					}
					return true
				})
				srv[k] = [2]string{called, reqT}
			}
			return true
		})
		c.ok("W6", sd.name+"/name", reg.Pos(), srvName == full, "service "+sd.name+" is registered under the descriptor's full name "+full, "registered as "+srvName)
		// resolve the declared request type through aliases (e.g. ShutdownRequest = Empty)
		resolve := func(tn string) string {
			if o := c.M.pkg(pkgAPI).Pkg.Scope().Lookup(tn); o != nil {
				if n, ok := types.Unalias(o.Type()).(*types.Named); ok {
					return n.Obj().Name()
				}
			}
			return tn
		}
		cliT := strings.ToLower(sd.name[:1]) + sd.name[1:] + "Client"
		for _, mm := range sd.methods {
			key := sd.name + "." + mm.name
			s, ok := srv[mm.name]
			bad := ""
			if !ok {
				bad = "no server registration for this method"
			} else if s[0] != mm.name {
				bad = fmt.Sprintf("the server routes %q to method %s", mm.name, s[0])
			} else if resolve(s[1]) != goMsgName(short(mm.in)) {
				bad = fmt.Sprintf("the server decodes the request as %s, the descriptor says %s", s[1], short(mm.in))
			}
			c.ok("W6", key+"/server", reg.Pos(), bad == "", fmt.Sprintf("ttRPC server routes %s.%s to the same-named method with request type %s", sd.name, mm.name, short(mm.in)), bad)
			// client
			cf := t.funcs[cliT][mm.name]
			badc := ""
			if cf == nil {
				badc = "no client method"
			} else {
				found := false
				ast.Inspect(cf.Body, func(n ast.Node) bool {
					ce, ok := n.(*ast.CallExpr)
					if !ok {
						return true
					}
					se, ok := ce.Fun.(*ast.SelectorExpr)
					if !ok || se.Sel.Name != "Call" || len(ce.Args) < 4 {
						return true
					}
					s1, ok1 := ce.Args[1].(*ast.BasicLit)
					s2, ok2 := ce.Args[2].(*ast.BasicLit)
					if ok1 && ok2 {
						a, _ := strconv.Unquote(s1.Value)
						b, _ := strconv.Unquote(s2.Value)
						if a == full && b == mm.name {
							found = true
						} else {
							badc = fmt.Sprintf("the client calls %s/%s", a, b)
						}
					}
					return true
				})
				if !found && badc == "" {
					badc = "no ttRPC call with the service and method name"
				}
			}
			c.ok("W6", key+"/client", reg.Pos(), badc == "", fmt.Sprintf("ttRPC client method %s calls %s/%s", mm.name, full, mm.name), badc)
		}
		for k := range srv {
			found := false
			for _, mm := range sd.methods {
				if mm.name == k {
					found = true
				}
			}
			if !found {
				c.violate("W6", sd.name+"."+k+"/server", reg.Pos(), "every registered method is a descriptor method", "registered method "+k+" is not in the descriptor")
			}
		}
	}
	// WASM host: pluginPlugin methods
	load := (*ast.FuncDecl)(nil)
	for _, mm := range t.funcs {
		for n, fd := range mm {
			if n == "Load" {
				load = fd
			}
		}
	}
	exported := map[string]string{} // local var / field -> exported function name
	if load != nil {
		ast.Inspect(load.Body, func(n ast.Node) bool {
			as, ok := n.(*ast.AssignStmt)
			if !ok || len(as.Lhs) != 1 || len(as.Rhs) != 1 {
				return true
			}
			ce, ok := as.Rhs[0].(*ast.CallExpr)
			if !ok {
				return true
			}
			se, ok := ce.Fun.(*ast.SelectorExpr)
			if !ok || se.Sel.Name != "ExportedFunction" || len(ce.Args) != 1 {
				return true
			}
			if id, ok := as.Lhs[0].(*ast.Ident); ok {
				if bl, ok := ce.Args[0].(*ast.BasicLit); ok {
					v, _ := strconv.Unquote(bl.Value)
					exported[id.Name] = v
				}
			}
			return true
		})
		// struct literal key: value
		ast.Inspect(load.Body, func(n ast.Node) bool {
			kv, ok := n.(*ast.KeyValueExpr)
			if !ok {
				return true
			}
			k, ok1 := kv.Key.(*ast.Ident)
			v, ok2 := kv.Value.(*ast.Ident)
			if ok1 && ok2 {
				if e, ok := exported[v.Name]; ok {
					exported["field:"+k.Name] = e
				}
			}
			return true
		})
	}
	for _, sd := range t.services {
		if sd.name != "Plugin" {
			continue
		}
		for _, mm := range sd.methods {
			fd := t.funcs["pluginPlugin"][mm.name]
			key := "wasm/" + mm.name
			what := "the WASM host method " + mm.name + " calls the exported function plugin_" + snake(mm.name) + " with the vtproto codec"
			if fd == nil {
				c.violate("W6", key, token.NoPos, what, "no host method for this service method")
				continue
			}
			recv := recvName(fd)
			usedField, marshal, unmarshal := "", false, false
			ast.Inspect(fd.Body, func(n ast.Node) bool {
				ce, ok := n.(*ast.CallExpr)
				if !ok {
					return true
				}
				se, ok := ce.Fun.(*ast.SelectorExpr)
				if !ok {
					return true
				}
				switch se.Sel.Name {
				case "Call":
					if in, ok := se.X.(*ast.SelectorExpr); ok {
						if id, ok := in.X.(*ast.Ident); ok && id.Name == recv {
							if _, isExp := exported["field:"+in.Sel.Name]; isExp && in.Sel.Name != "malloc" && in.Sel.Name != "free" {
								usedField = in.Sel.Name
							}
						}
					}
				case "MarshalVT":
					if id, ok := se.X.(*ast.Ident); ok && id.Name == "request" {
						marshal = true
					}
				case "UnmarshalVT":
					unmarshal = true
				}
				return true
			})
			bad := ""
			want := "plugin_" + snake(mm.name)
			switch {
			case usedField == "":
				bad = "the method does not call an exported function of the module"
			case exported["field:"+usedField] != want:
				bad = fmt.Sprintf("the method calls exported function %q, want %q: the WASM plugin's handler for another request is invoked", exported["field:"+usedField], want)
			case !marshal || !unmarshal:
				bad = "the request/response are not encoded with MarshalVT / decoded with UnmarshalVT"
			}
			c.ok("W6", key, fd.Pos(), bad == "", what, bad)
		}
	}
}

// ruleT1desc: the Event enum of the descriptor equals the Go constants.
func ruleT1desc(c *Ctx, t *wireTables) {
	c.rule("W7", "enum agreement: the Event enum decoded from the descriptor has exactly the names and numbers of the generated Go constants", 15)
	ev, ok := t.enums["Event"]
	if !ok {
		c.violate("W7", "Event", token.NoPos, "the descriptor declares the Event enum", "enum Event not found in the descriptor")
		return
	}
	goC := eventConsts(c.M)
	for n, v := range goC {
		dn := strings.TrimPrefix(n, "Event_")
		dv, ok := ev[dn]
		c.ok("W7", "Event/"+dn, token.NoPos, ok && dv == v, fmt.Sprintf("Event %s = %d in descriptor and Go constants", dn, v), fmt.Sprintf("descriptor has %v (present=%v)", dv, ok))
	}
	for dn := range ev {
		if _, ok := goC["Event_"+dn]; !ok {
			c.violate("W7", "Event/"+dn, token.NoPos, "every descriptor event has a Go constant", "no Go constant Event_"+dn)
		}
	}
}

// ruleW8: the back-to-front encoder walks repeated fields from the last element to the first.
func ruleW8(c *Ctx, t *wireTables) {
	c.rule("W8", "repeated order: MarshalToSizedBufferVT fills its buffer from the end, so every loop over a repeated (slice) field runs from len-1 down to 0 — a forward or range loop writes the elements in reverse and both decoders return the list reversed (map fields, whose order does not matter, may be ranged)", 30)
	for _, name := range t.sortedMsgs() {
		gn := goMsgName(name)
		mf := t.funcs[gn]["MarshalToSizedBufferVT"]
		if mf == nil {
			continue
		}
		recv := recvName(mf)
		// field of the receiver indexed/ranged by a loop, if it is a slice
		sliceField := func(e ast.Expr) string {
			sel, ok := e.(*ast.SelectorExpr)
			if !ok {
				return ""
			}
			id, ok := sel.X.(*ast.Ident)
			if !ok || id.Name != recv {
				return ""
			}
			if tv, ok := t.info.Types[e]; ok {
				if _, isSlice := tv.Type.Underlying().(*types.Slice); isSlice {
					if b, isB := tv.Type.Underlying().(*types.Slice).Elem().Underlying().(*types.Basic); isB && b.Kind() == types.Uint8 {
						return "" // bytes
					}
					return sel.Sel.Name
				}
			}
			return ""
		}
		ast.Inspect(mf.Body, func(n ast.Node) bool {
			switch x := n.(type) {
			case *ast.RangeStmt:
				if f := sliceField(x.X); f != "" {
					c.violate("W8", name+"."+f, x.Pos(), "the encoder walks repeated field "+f+" backwards", "the field is ranged over front to back: the elements are written in reverse order")
				}
				// a map field: each entry's length is measured from a mark taken inside the loop body
				if sel, ok := x.X.(*ast.SelectorExpr); ok {
					if id, ok := sel.X.(*ast.Ident); ok && id.Name == recv {
						if tv, ok := t.info.Types[x.X]; ok {
							if _, isMap := tv.Type.Underlying().(*types.Map); isMap {
								marked := false
								for _, st := range x.Body.List {
									if as, ok := st.(*ast.AssignStmt); ok && as.Tok == token.DEFINE && len(as.Lhs) == 1 && len(as.Rhs) == 1 {
										if l, ok := as.Lhs[0].(*ast.Ident); ok && l.Name == "baseI" {
											if r, ok := as.Rhs[0].(*ast.Ident); ok && r.Name == "i" {
												marked = true
											}
										}
									}
								}
								usesBase := false
								ast.Inspect(x.Body, func(n3 ast.Node) bool {
									if id, ok := n3.(*ast.Ident); ok && id.Name == "baseI" {
										usesBase = true
									}
									return true
								})
								if usesBase {
									c.ok("W8", name+"."+sel.Sel.Name+"/entry-mark", x.Pos(), marked, "each entry of map field "+sel.Sel.Name+" measures its own length (the mark is taken per entry)",
										"the position mark the entry length is computed from is not taken inside the loop: every entry after the first gets a length prefix that also covers the entries written before it, so decoders see one entry whose value swallows the others (and the size no longer matches SizeVT)")
								}
							}
						}
					}
				}
			case *ast.ForStmt:
				// which receiver slice does the body index with the loop variable?
				init, ok := x.Init.(*ast.AssignStmt)
				if !ok || len(init.Lhs) != 1 {
					return true
				}
				iv, ok := init.Lhs[0].(*ast.Ident)
				if !ok {
					return true
				}
				field := ""
				ast.Inspect(x.Body, func(n2 ast.Node) bool {
					if ix, ok := n2.(*ast.IndexExpr); ok {
						if id, ok := ix.Index.(*ast.Ident); ok && id.Name == iv.Name {
							if f := sliceField(ix.X); f != "" {
								field = f
							}
						}
					}
					return true
				})
				if field == "" {
					return true
				}
				// init: len(m.F) - 1; cond: iv >= 0; post: iv--
				okInit, okCond, okPost := false, false, false
				if be, ok := init.Rhs[0].(*ast.BinaryExpr); ok && be.Op == token.SUB {
					if call, ok := be.X.(*ast.CallExpr); ok {
						if fn, ok := call.Fun.(*ast.Ident); ok && fn.Name == "len" && len(call.Args) == 1 && sliceField(call.Args[0]) == field {
							if bl, ok := be.Y.(*ast.BasicLit); ok && bl.Value == "1" {
								okInit = true
							}
						}
					}
				}
				if be, ok := x.Cond.(*ast.BinaryExpr); ok && be.Op == token.GEQ {
					if id, ok := be.X.(*ast.Ident); ok && id.Name == iv.Name {
						if bl, ok := be.Y.(*ast.BasicLit); ok && bl.Value == "0" {
							okCond = true
						}
					}
				}
				if inc, ok := x.Post.(*ast.IncDecStmt); ok && inc.Tok == token.DEC {
					if id, ok := inc.X.(*ast.Ident); ok && id.Name == iv.Name {
						okPost = true
					}
				}
				c.ok("W8", name+"."+field, x.Pos(), okInit && okCond && okPost, "the encoder walks repeated field "+field+" from the last element to the first",
					"the loop over the repeated field does not run from len-1 down to 0: the back-to-front encoder then writes the elements in reverse (or skips some), so the decoded list differs from the original")
			}
			return true
		})
	}
}
