// nricheck: repository-specific static checker for containerd/nri (see /verif/DESIGN.md).
//
// Nothing in the analysed repository is executed.  Every run loads and
// type-checks the current sources, builds go/ssa, enumerates the obligations
// of the selected property's rules and decides each of them.
package main

import (
	"encoding/json"
	"fmt"
	"go/token"
	"go/types"
	"os"
	"path/filepath"
	"sort"
	"strings"
	"time"

	"golang.org/x/tools/go/packages"
	"golang.org/x/tools/go/ssa"
	"golang.org/x/tools/go/ssa/ssautil"
)

const modPath = "github.com/containerd/nri"

// Status of an obligation.
type Status int

const (
	Discharged Status = iota
	Violated
	Undecided
)

func (s Status) String() string {
	return [...]string{"discharged", "violated", "undecided"}[s]
}

// Obligation is one instance of a rule on one construct.
type Obligation struct {
	Rule   string `json:"rule"`
	Key    string `json:"key"` // rule + construct; never a line number
	Pos    string `json:"pos"` // file:line, for the reader only
	What   string `json:"what"`
	Status string `json:"status"`
	Detail string `json:"detail,omitempty"`
	status Status
}

// Module is one loaded Go module (the main nri module, or one of the plugin modules).
type Module struct {
	Dir    string
	Env    []string
	Fset   *token.FileSet
	Roots  []*packages.Package
	ByPath map[string]*packages.Package
	Prog   *ssa.Program
	SSA    map[string]*ssa.Package
	NFuncs int

	callers    map[*ssa.Function][]callSite
	refs       map[*ssa.Function][]ssa.Instruction
	chaMemo    map[string]*ssa.Function
	allFuncs   []*ssa.Function
	mapCopy    map[*ssa.Function]bool
	pathGet    map[*ssa.Function][]string
	hflows     map[*ssa.Function][]flow
	renames    map[string]string // anchors resolved to a renamed function (names.go)
	gfCache    map[*ssa.Global]*ssa.Function
	pdomCache  map[*ssa.Function]*postDom
	getterMemo map[*ssa.Function]getterInfo
}

// Ctx is the state of one check run.
type Ctx struct {
	Repo  string
	Tier  string
	Prop  string
	Start time.Time
	M     *Module // main module
	obs   []*Obligation
	mins  map[string]int // rule -> minimum number of instances
	rules map[string]string
	notes []string
	seen  map[string]int
	// configurations analysed (thorough)
	configs []string
}

func relPos(fset *token.FileSet, repo string, p token.Pos) string {
	if !p.IsValid() {
		return "-"
	}
	pos := fset.Position(p)
	f := pos.Filename
	if r, err := filepath.Rel(repo, f); err == nil && !strings.HasPrefix(r, "..") {
		f = r
	}
	return fmt.Sprintf("%s:%d", f, pos.Line)
}

func (c *Ctx) pos(p token.Pos) string { return relPos(c.M.Fset, c.Repo, p) }

// rule registers a rule with its statement and the minimum number of instances
// confirmed by reading today's tree; fewer instances is reported as a violation
// (a rule that matches nothing passes vacuously forever).
func (c *Ctx) rule(id, statement string, min int) {
	if c.rules == nil {
		c.rules = map[string]string{}
		c.mins = map[string]int{}
	}
	c.rules[id] = statement
	c.mins[id] = min
}

func (c *Ctx) add(rule, key string, p token.Pos, st Status, what, detail string) *Obligation {
	return c.addAt(rule, key, c.pos(p), st, what, detail)
}

func (c *Ctx) addAt(rule, key, pos string, st Status, what, detail string) *Obligation {
	full := rule + ":" + key
	if c.seen == nil {
		c.seen = map[string]int{}
	}
	c.seen[full]++
	if n := c.seen[full]; n > 1 {
		full = fmt.Sprintf("%s#%d", full, n)
	}
	o := &Obligation{Rule: rule, Key: full, Pos: pos, What: what, Status: st.String(), Detail: detail, status: st}
	c.obs = append(c.obs, o)
	return o
}

// ok records an obligation that is discharged when cond holds and violated otherwise.
func (c *Ctx) ok(rule, key string, p token.Pos, cond bool, what, detailIfNot string) bool {
	if cond {
		c.add(rule, key, p, Discharged, what, "")
	} else {
		c.add(rule, key, p, Violated, what, detailIfNot)
	}
	return cond
}

func (c *Ctx) violate(rule, key string, p token.Pos, what, detail string) {
	c.add(rule, key, p, Violated, what, detail)
}

func (c *Ctx) undecided(rule, key string, p token.Pos, what, detail string) {
	c.add(rule, key, p, Undecided, what, detail)
}

func (c *Ctx) note(f string, a ...interface{}) { c.notes = append(c.notes, fmt.Sprintf(f, a...)) }

// ---------------------------------------------------------------- loading

func baseEnv(extra ...string) []string {
	var env []string
	for _, e := range os.Environ() {
		if strings.HasPrefix(e, "GOFLAGS=") || strings.HasPrefix(e, "GOWORK=") || strings.HasPrefix(e, "GOPROXY=") ||
			strings.HasPrefix(e, "GOSUMDB=") || strings.HasPrefix(e, "GOTOOLCHAIN=") || strings.HasPrefix(e, "GOOS=") ||
			strings.HasPrefix(e, "GOARCH=") {
			continue
		}
		env = append(env, e)
	}
	env = append(env, "GOFLAGS=-mod=mod", "GOPROXY=off", "GOSUMDB=off", "GOWORK=off", "GOTOOLCHAIN=local")
	return append(env, extra...)
}

// loadModule loads all packages of the module rooted at dir with full syntax
// and type information of all dependencies, and builds SSA.
func loadModule(dir string, tests bool, patterns []string, extraEnv ...string) (*Module, error) {
	fset := token.NewFileSet()
	cfg := &packages.Config{
		Mode:  packages.LoadAllSyntax,
		Dir:   dir,
		Fset:  fset,
		Env:   baseEnv(extraEnv...),
		Tests: tests,
	}
	if len(patterns) == 0 {
		patterns = []string{"./..."}
	}
	pkgs, err := packages.Load(cfg, patterns...)
	if err != nil {
		return nil, fmt.Errorf("load %s: %v", dir, err)
	}
	if len(pkgs) == 0 {
		return nil, fmt.Errorf("load %s: no packages", dir)
	}
	var errs []string
	packages.Visit(pkgs, nil, func(p *packages.Package) {
		for _, e := range p.Errors {
			errs = append(errs, e.Error())
		}
	})
	if len(errs) > 0 {
		if len(errs) > 8 {
			errs = errs[:8]
		}
		return nil, fmt.Errorf("load %s: type/parse errors: %s", dir, strings.Join(errs, "; "))
	}
	m := &Module{Dir: dir, Fset: fset, Roots: pkgs, ByPath: map[string]*packages.Package{}, SSA: map[string]*ssa.Package{},
		gfCache: map[*ssa.Global]*ssa.Function{}, pdomCache: map[*ssa.Function]*postDom{}, getterMemo: map[*ssa.Function]getterInfo{}}
	packages.Visit(pkgs, nil, func(p *packages.Package) {
		if old, dup := m.ByPath[p.PkgPath]; !dup || len(p.GoFiles) > len(old.GoFiles) {
			m.ByPath[p.PkgPath] = p
		}
	})
	prog, _ := ssautil.AllPackages(pkgs, ssa.InstantiateGenerics)
	prog.Build()
	m.Prog = prog
	for _, sp := range prog.AllPackages() {
		if sp != nil {
			if _, dup := m.SSA[sp.Pkg.Path()]; !dup {
				m.SSA[sp.Pkg.Path()] = sp
			}
		}
	}
	m.canonTypes()
	m.canonFields()
	m.canonLocks()
	return m, nil
}

// loadTypesOnly loads packages for another build configuration (GOOS/GOARCH);
// only syntax and types of the named packages are needed.
func loadTypesOnly(dir string, patterns []string, extraEnv ...string) ([]*packages.Package, *token.FileSet, error) {
	fset := token.NewFileSet()
	cfg := &packages.Config{
		Mode: packages.NeedName | packages.NeedFiles | packages.NeedCompiledGoFiles | packages.NeedImports | packages.NeedDeps |
			packages.NeedTypes | packages.NeedSyntax | packages.NeedTypesInfo | packages.NeedTypesSizes,
		Dir:  dir,
		Fset: fset,
		Env:  baseEnv(extraEnv...),
	}
	pkgs, err := packages.Load(cfg, patterns...)
	if err != nil {
		return nil, nil, err
	}
	for _, p := range pkgs {
		for _, e := range p.Errors {
			return nil, nil, fmt.Errorf("%s: %v", p.PkgPath, e)
		}
	}
	return pkgs, fset, nil
}

// ---------------------------------------------------------------- lookup helpers (fail closed)

type anchorErr struct{ msg string }

func (m *Module) pkg(path string) *ssa.Package {
	p := m.SSA[path]
	if p == nil {
		panic(anchorErr{"anchor package not found: " + path})
	}
	return p
}

func (m *Module) tpkg(path string) *packages.Package {
	p := m.ByPath[path]
	if p == nil {
		panic(anchorErr{"anchor package not found: " + path})
	}
	return p
}

// fn returns the package-level function pkg.name.
func (m *Module) fn(pkg, name string) *ssa.Function {
	f := m.pkg(pkg).Func(name)
	if f == nil {
		f = m.renamed(pkg, "", name)
	}
	if f == nil {
		panic(anchorErr{fmt.Sprintf("anchor function not found: %s.%s", pkg, name)})
	}
	return f
}

func (m *Module) fnOpt(pkg, name string) *ssa.Function {
	p := m.SSA[pkg]
	if p == nil {
		return nil
	}
	return p.Func(name)
}

func (m *Module) named(pkg, typ string) *types.Named {
	o := m.pkg(pkg).Pkg.Scope().Lookup(m.curType(pkg, typ))
	if o == nil {
		panic(anchorErr{fmt.Sprintf("anchor type not found: %s.%s", pkg, typ)})
	}
	tn, ok := o.(*types.TypeName)
	if !ok {
		panic(anchorErr{fmt.Sprintf("anchor is not a type: %s.%s", pkg, typ)})
	}
	if a, ok := tn.Type().(*types.Alias); ok {
		if n, ok := types.Unalias(a).(*types.Named); ok {
			return n
		}
	}
	n, ok := tn.Type().(*types.Named)
	if !ok {
		panic(anchorErr{fmt.Sprintf("anchor is not a named type: %s.%s", pkg, typ)})
	}
	return n
}

// method returns the method typ.name (pointer or value receiver).
func (m *Module) method(pkg, typ, name string) *ssa.Function {
	f := m.methodOpt(pkg, typ, name)
	if f == nil {
		f = m.renamed(pkg, typ, name)
	}
	if f == nil {
		panic(anchorErr{fmt.Sprintf("anchor method not found: %s.%s.%s", pkg, typ, name)})
	}
	return f
}

func (m *Module) methodOpt(pkg, typ, name string) *ssa.Function {
	if m.SSA[pkg] == nil {
		return nil
	}
	o := m.SSA[pkg].Pkg.Scope().Lookup(m.curType(pkg, typ))
	if o == nil {
		return nil
	}
	n, ok := types.Unalias(o.Type()).(*types.Named)
	if !ok {
		return nil
	}
	for _, t := range []types.Type{types.NewPointer(n), n} {
		ms := m.Prog.MethodSets.MethodSet(t)
		for i := 0; i < ms.Len(); i++ {
			if ms.At(i).Obj().Name() == name {
				f := m.Prog.MethodValue(ms.At(i))
				// skip promoted methods of embedded types
				if f != nil && f.Synthetic == "" {
					return f
				}
				if f != nil && strings.HasPrefix(f.Synthetic, "wrapper") {
					// value-receiver method seen through pointer: find the declared one
					if fn := m.Prog.FuncValue(ms.At(i).Obj().(*types.Func)); fn != nil && recvNamed(fn) == n {
						return fn
					}
				}
			}
		}
	}
	return nil
}

func recvNamed(f *ssa.Function) *types.Named {
	if f == nil || f.Signature.Recv() == nil {
		return nil
	}
	t := f.Signature.Recv().Type()
	if p, ok := t.(*types.Pointer); ok {
		t = p.Elem()
	}
	n, _ := types.Unalias(t).(*types.Named)
	return n
}

// methodsOf returns all methods declared on the named type (value and pointer receivers), sorted by name.
func (m *Module) methodsOf(pkg, typ string) []*ssa.Function {
	n := m.named(pkg, typ)
	var out []*ssa.Function
	for i := 0; i < n.NumMethods(); i++ {
		if f := m.Prog.FuncValue(n.Method(i)); f != nil {
			out = append(out, f)
		}
	}
	sort.Slice(out, func(i, j int) bool { return out[i].Name() < out[j].Name() })
	return out
}

func (m *Module) structOf(pkg, typ string) *types.Struct {
	s, ok := m.named(pkg, typ).Underlying().(*types.Struct)
	if !ok {
		panic(anchorErr{fmt.Sprintf("anchor is not a struct: %s.%s", pkg, typ)})
	}
	return s
}

// funcsInPkg returns every function (incl. methods and anonymous functions) whose package is pkg.
func (m *Module) funcsInPkg(pkg string) []*ssa.Function {
	var out []*ssa.Function
	for _, f := range m.funcs() {
		if f.Pkg != nil && f.Pkg.Pkg.Path() == pkg {
			out = append(out, f)
		}
	}
	return out
}

func (m *Module) funcs() []*ssa.Function {
	if m.allFuncs == nil {
		for f := range ssautil.AllFunctions(m.Prog) {
			if f.Blocks != nil {
				m.allFuncs = append(m.allFuncs, f)
			}
		}
		sort.Slice(m.allFuncs, func(i, j int) bool {
			a, b := m.allFuncs[i], m.allFuncs[j]
			if a.String() != b.String() {
				return a.String() < b.String()
			}
			return a.Pos() < b.Pos()
		})
		m.NFuncs = len(m.allFuncs)
	}
	return m.allFuncs
}

// repoFuncs returns the functions declared in the repository's own packages.
func (m *Module) repoFuncs() []*ssa.Function {
	var out []*ssa.Function
	for _, f := range m.funcs() {
		if f.Pkg != nil && strings.HasPrefix(f.Pkg.Pkg.Path(), modPath) && f.Synthetic == "" {
			out = append(out, f)
		}
	}
	return out
}

// ---------------------------------------------------------------- evidence / findings

type knownFinding struct {
	Property string `json:"property"`
	Rule     string `json:"rule"`
	Key      string `json:"key"`
	Status   string `json:"status"` // "known" or "fixed"
	Commit   string `json:"commit,omitempty"`
	What     string `json:"what"`
}

func loadKnown(path string) ([]knownFinding, error) {
	b, err := os.ReadFile(path)
	if err != nil {
		if os.IsNotExist(err) {
			return nil, nil
		}
		return nil, err
	}
	var f struct {
		Findings []knownFinding `json:"findings"`
	}
	if err := json.Unmarshal(b, &f); err != nil {
		return nil, err
	}
	return f.Findings, nil
}

type ruleStat struct {
	Statement  string `json:"statement"`
	Instances  int    `json:"instances"`
	Min        int    `json:"min_instances"`
	Discharged int    `json:"discharged"`
}

// finish prints the verdict, writes evidence and replay files, and returns the exit code.
func (c *Ctx) finish(verifDir string, explanation string, assumptions []string, notDecided []string) int {
	// vacuity guard
	count := map[string]int{}
	disc := map[string]int{}
	for _, o := range c.obs {
		count[o.Rule]++
		if o.status == Discharged {
			disc[o.Rule]++
		}
	}
	var ruleIDs []string
	for id := range c.rules {
		ruleIDs = append(ruleIDs, id)
	}
	sort.Strings(ruleIDs)
	for _, id := range ruleIDs {
		if count[id] < c.mins[id] {
			c.addAt(id, "instances", "-", Violated, "rule instance family did not shrink",
				fmt.Sprintf("rule %s matched %d instances, fewer than the %d confirmed by reading: the family it quantifies over shrank or is no longer recognised", id, count[id], c.mins[id]))
			count[id]++
		}
	}
	known, kerr := loadKnown(filepath.Join(verifDir, "known_findings.json"))
	if kerr != nil {
		fmt.Printf("error reading known_findings.json: %v\n", kerr)
	}
	isKnown := func(o *Obligation) *knownFinding {
		for i := range known {
			k := &known[i]
			if k.Status == "known" && k.Property == c.Prop && k.Key == o.Key {
				return k
			}
		}
		return nil
	}

	os.MkdirAll(filepath.Join(verifDir, "evidence", "replay"), 0o755)
	// remove stale replay files of this property
	if old, _ := filepath.Glob(filepath.Join(verifDir, "evidence", "replay", c.Prop+"-*.json")); old != nil {
		for _, f := range old {
			os.Remove(f)
		}
	}
	violations, knownHits := 0, 0
	var out []string
	sort.SliceStable(c.obs, func(i, j int) bool {
		if c.obs[i].Rule != c.obs[j].Rule {
			return c.obs[i].Rule < c.obs[j].Rule
		}
		return c.obs[i].Key < c.obs[j].Key
	})
	for _, o := range c.obs {
		if o.status == Discharged {
			continue
		}
		if k := isKnown(o); k != nil && o.status == Violated {
			knownHits++
			out = append(out, fmt.Sprintf("KNOWN-FINDING: property=%s %s [%s at %s]", c.Prop, k.What, o.Key, o.Pos))
			continue
		}
		violations++
		rp := filepath.Join(verifDir, "evidence", "replay", fmt.Sprintf("%s-%d.json", c.Prop, violations))
		rb, _ := json.MarshalIndent(map[string]interface{}{
			"property": c.Prop, "tier": c.Tier, "rule": o.Rule, "rule_statement": c.rules[o.Rule], "key": o.Key,
			"position": o.Pos, "obligation": o.What, "status": o.Status, "detail": o.Detail,
			"replay": fmt.Sprintf("cd /verif && ./run.sh %s %s --only '%s'", c.Prop, c.Tier, o.Key),
		}, "", " ")
		os.WriteFile(rp, rb, 0o644)
		fmt.Printf("%s %s at %s\n    rule %s: %s\n    obligation: %s\n    %s\n", strings.ToUpper(o.Status), o.Key, o.Pos, o.Rule, c.rules[o.Rule], o.What, o.Detail)
		out = append(out, fmt.Sprintf("VIOLATION property=%s replay=%s", c.Prop, rp))
	}
	for _, l := range out {
		fmt.Println(l)
	}

	// evidence
	stats := map[string]ruleStat{}
	total, discharged := 0, 0
	for _, id := range ruleIDs {
		stats[id] = ruleStat{Statement: c.rules[id], Instances: count[id], Min: c.mins[id], Discharged: disc[id]}
	}
	distinct := map[string]bool{}
	var samples []interface{}
	perRule := map[string]int{}
	for _, o := range c.obs {
		total++
		if o.status == Discharged {
			discharged++
		}
		distinct[o.Key] = true
		if perRule[o.Rule] < 3 || o.status != Discharged {
			perRule[o.Rule]++
			samples = append(samples, map[string]string{"rule": o.Rule, "key": o.Key, "pos": o.Pos, "obligation": o.What, "status": o.Status})
		}
	}
	if len(samples) > 120 {
		samples = samples[:120]
	}
	pkgs := []string{}
	for _, p := range c.M.Roots {
		pkgs = append(pkgs, p.PkgPath)
	}
	sort.Strings(pkgs)
	cfgs := c.configs
	if len(cfgs) == 0 {
		cfgs = []string{"linux/amd64 (default build configuration)"}
	}
	ev := map[string]interface{}{
		"property_id": c.Prop,
		"tier":        c.Tier,
		"seed":        seedFromEnv(),
		"level":       "other",
		"coverage": map[string]interface{}{
			"explanation":            explanation,
			"rule":                   "static analysis: obligations are enumerated from the type-checked program and its SSA form by the rules listed under 'rules'; an obligation is one (rule, construct) pair, keyed by rule and construct name, and is non-trivial by construction (each names a distinct site of the code that has to satisfy the rule)",
			"obligations":            total,
			"discharged":             discharged,
			"evaluations":            total,
			"distinct_nontrivial":    len(distinct),
			"exhaustive":             true,
			"rules":                  stats,
			"samples":                samples,
			"not_decided":            notDecided,
			"packages_analysed":      pkgs,
			"functions_in_ssa":       c.M.NFuncs,
			"build_configurations":   cfgs,
			"notes":                  c.notes,
			"renamed_anchors":        c.M.renames,
			"known_findings_matched": knownHits,
			"checker_cmd":            fmt.Sprintf("bin/nricheck -repo %s -property %s -tier %s", c.Repo, c.Prop, c.Tier),
		},
		"assumptions": assumptions,
		"wall_s":      time.Since(c.Start).Seconds(),
		"violations":  violations,
	}
	eb, _ := json.MarshalIndent(ev, "", " ")
	if err := os.WriteFile(filepath.Join(verifDir, "evidence", c.Prop+".json"), eb, 0o644); err != nil {
		fmt.Printf("cannot write evidence: %v\n", err)
		return 2
	}
	fmt.Printf("%s %s: %d obligations over %d rules, %d discharged, %d violations, %d known findings (%.1fs)\n",
		c.Prop, c.Tier, total, len(ruleIDs), discharged, violations, knownHits, time.Since(c.Start).Seconds())
	if violations > 0 {
		return 1
	}
	return 0
}

func seedFromEnv() int {
	var n int
	fmt.Sscanf(os.Getenv("VERIF_SEED"), "%d", &n)
	return n
}

// pluginModules lists the separate Go modules under plugins/ and examples/ (each with its own go.mod).
func pluginModules(repo string) []string {
	var out []string
	for _, pat := range []string{"plugins/*/go.mod", "examples/*/go.mod"} {
		ms, _ := filepath.Glob(filepath.Join(repo, pat))
		for _, g := range ms {
			d := filepath.Dir(g)
			if filepath.Base(d) == "wasm" {
				continue // built for GOOS=wasip1 only
			}
			out = append(out, d)
		}
	}
	sort.Strings(out)
	return out
}

func relMod(repo, dir string) string {
	if r, err := filepath.Rel(repo, dir); err == nil {
		return r
	}
	return dir
}
