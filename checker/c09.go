package main

import (
	"fmt"
	"go/token"
	"strings"

	"golang.org/x/tools/go/ssa"
)

func init() {
	register("C09", &propInfo{
		run: func(c *Ctx) {
			ruleB1(c)
			ruleB2(c)
			ruleB3(c)
			ruleB4(c)
			ruleB5(c)
			ruleB6(c)
			ruleB7(c)
			ruleB5echo(c)
			ruleS2S3(c)
		},
		explanation: "Decides the structure of split synchronization: every slice expression of the sender's chunk walk is proved in bounds by an inductive argument over the retry/advance loop (n <= len(list) holds on every edge into the loop head, including the edge that carries the recalculated chunk sizes); each list's chunk upper bound and advance lower bound are the same value and the 'more' flag is exactly 'something is left of either list' for those bounds; a non-final chunk whose reply carries updates or a different 'more' fails the sync before the lists are advanced; a plugin whose synchronization fails is never activated (both activation sites); the receiver appends both lists to the stored ones in order under the stub lock, takes-and-clears the stored request, calls the handler exactly once with the concatenation and wires its results to the response. The chunk walk ends on the sender's own More flag, never on the reply's. A per-message count that the retry scales down to zero is raised to one while its list is non-empty, so every accepted non-final chunk advances every non-empty list. Every response the stub builds for a chunk echoes the request's More flag; a failing synchronization closes the plugin. The retry recomputes the counts of the rejected message; the split-reply check applies to non-final chunks only.",
		notDecided: []string{
			"the arithmetic of the shrink factor and hence termination of the retry loop (numeric)",
			"transport limits and the sizes of real objects",
			"what ttRPC reports for an oversized message",
		},
	})
}

func ruleB1(c *Ctx) {
	m := c.M
	c.rule("B1", "slice bounds: every slice expression in plugin.synchronize is proved in bounds (lo <= len(s), hi <= len(s)) by induction over the retry/advance loop, using only definitions, dominating branch conditions and transitivity", 4)
	f := m.method(pkgAdapt, "plugin", "synchronize")
	for _, sb := range proveSliceBounds(f) {
		a := m.ap(sb.Slice.X)
		name := a.RootString()
		key := fmt.Sprintf("synchronize/%s/%s", strings.TrimPrefix(name, "phi:"), sb.Which)
		detail := ""
		if !sb.OK {
			var tr []string
			for _, t := range sb.Trace {
				if strings.Contains(t, "FAILED") {
					tr = append(tr, strings.TrimSpace(t))
				}
			}
			detail = fmt.Sprintf("cannot prove %s <= len(%s): %s — on that edge the bound is not clamped to what is left of the list, so the slice expression can panic (slice bounds out of range) and crash the runtime", sb.V.Name(), sb.Slice.X.Name(), strings.Join(tr, "; "))
		}
		c.ok("B1", key, sb.Slice.Pos(), sb.OK, fmt.Sprintf("slice %s bound of %s is within the list on every path", sb.Which, name), detail)
	}
}

func ruleB2(c *Ctx) {
	m := c.M
	c.rule("B2", "walk in step: for each of the two lists the chunk's upper bound and the advance's lower bound are the same value, the request carries exactly those chunks, and the More flag is len(pods) > podsBound || len(containers) > ctrsBound for the same (list, bound) pairs", 3)
	f := m.method(pkgAdapt, "plugin", "synchronize")
	// chunk slices: s[:n] (Low nil) ; advance slices: s[n:] (High nil)
	type pair struct{ chunk, adv *ssa.Slice }
	lists := map[ssa.Value]*pair{}
	for _, b := range f.Blocks {
		for _, in := range b.Instrs {
			sl, ok := in.(*ssa.Slice)
			if !ok {
				continue
			}
			p := lists[sl.X]
			if p == nil {
				p = &pair{}
				lists[sl.X] = p
			}
			if sl.Low == nil && sl.High != nil {
				p.chunk = sl
			}
			if sl.High == nil && sl.Low != nil {
				p.adv = sl
			}
		}
	}
	n := 0
	type lb struct{ list, bound ssa.Value }
	var used []lb
	for l, p := range lists {
		if p.chunk == nil && p.adv == nil {
			continue
		}
		n++
		name := strings.TrimPrefix(m.ap(l).RootString(), "phi:")
		okp := p.chunk != nil && p.adv != nil && p.chunk.High == p.adv.Low
		pos := f.Pos()
		if p.chunk != nil {
			pos = p.chunk.Pos()
			used = append(used, lb{l, p.chunk.High})
		}
		c.ok("B2", "step/"+name, pos, okp, fmt.Sprintf("list %s is advanced by exactly what was sent", name),
			"the chunk sent and the advance of the remaining list use different bounds: objects are skipped or sent twice")
	}
	if n != 2 {
		c.violate("B2", "lists", f.Pos(), "both lists (pods, containers) are walked", fmt.Sprintf("found %d chunked lists", n))
	}
	// More flag: stored into the request's More field
	var moreVal ssa.Value
	var morePos token.Pos
	for _, b := range f.Blocks {
		for _, in := range b.Instrs {
			if st, ok := in.(*ssa.Store); ok {
				if fa, ok := st.Addr.(*ssa.FieldAddr); ok && fieldName(fa.X.Type(), fa.Field) == "More" {
					if _, fresh := fa.X.(*ssa.Alloc); fresh {
						moreVal, morePos = st.Val, st.Pos()
					}
				}
			}
		}
	}
	okM := false
	if moreVal != nil {
		// collect the comparisons feeding the flag: phi of (true, cmp2) controlled by cmp1, or OR
		var cmps []*ssa.BinOp
		var collect func(v ssa.Value, d int)
		collect = func(v ssa.Value, d int) {
			if d > 4 {
				return
			}
			switch x := v.(type) {
			case *ssa.BinOp:
				if x.Op == token.GTR || x.Op == token.LSS {
					cmps = append(cmps, x)
				} else {
					collect(x.X, d+1)
					collect(x.Y, d+1)
				}
			case *ssa.Phi:
				for i, e := range x.Edges {
					collect(e, d+1)
					if isConstBool(e, true) {
						// short-circuit: the edge comes from the first comparison being true
						if iff := lastIf(x.Block().Preds[i]); iff != nil {
							collect(iff.Cond, d+1)
						}
					}
				}
			}
		}
		collect(moreVal, 0)
		matched := 0
		for _, u := range used {
			for _, cmp := range cmps {
				x, y := cmp.X, cmp.Y
				if cmp.Op == token.LSS {
					x, y = y, x
				}
				if ln, ok := isBuiltinCall(x, "len"); ok && ln.Call.Args[0] == u.list && y == u.bound {
					matched++
				}
			}
		}
		okM = matched == 2 && len(cmps) == 2
	}
	c.ok("B2", "more", morePos, okM, "the More flag is 'len(list) > bound' for exactly the two (list, bound) pairs that are sent",
		"the More flag does not compare each list's remaining length with the bound actually sent: the receiver stops collecting too early (state lost) or waits forever")
}

func ruleB3(c *Ctx) {
	m := c.M
	c.rule("B3", "split protocol: after a successfully sent non-final chunk the sender fails the sync (closes the plugin, returns an error) if the reply carries updates or a different More flag, and that test dominates the advance of the lists", 1)
	f := m.method(pkgAdapt, "plugin", "synchronize")
	var advs []*ssa.Slice
	for _, b := range f.Blocks {
		for _, in := range b.Instrs {
			if sl, ok := in.(*ssa.Slice); ok && sl.High == nil && sl.Low != nil {
				advs = append(advs, sl)
			}
		}
	}
	// conditions over rpl.Update / rpl.More whose failing branch returns a non-nil error
	var updT, moreT *ssa.If
	for _, b := range f.Blocks {
		iff := lastIf(b)
		if iff == nil {
			continue
		}
		bo, ok := iff.Cond.(*ssa.BinOp)
		if !ok {
			continue
		}
		var subj AP
		if ln, ok := isBuiltinCall(bo.X, "len"); ok {
			subj = m.ap(ln.Call.Args[0])
		} else {
			subj = m.ap(bo.X)
		}
		last := ""
		if len(subj.Path) > 0 {
			last = subj.Path[len(subj.Path)-1]
		}
		// the subject must be the reply of the Synchronize RPC
		isReply := false
		for _, src := range valueSources(subj.Root, iff, 0) {
			if call, ok := src.(*ssa.Call); ok {
				if g := m.callee(call.Common()); g != nil && recvNamed(g) != nil && tname(recvNamed(g).Obj()) == "pluginType" {
					isReply = true
				}
			}
		}
		if !isReply {
			continue
		}
		switch last {
		case "Update":
			updT = iff
		case "More":
			if bo.Op == token.NEQ {
				moreT = iff
			}
		}
	}
	bad := ""
	if updT == nil || moreT == nil {
		bad = "the reply of a non-final chunk is not checked for updates and for an echoed More flag"
	} else {
		fail := updT.Block().Succs[0]
		okF := false
		for _, r := range returnsOf(f) {
			if fail.Dominates(r.Block()) || moreT.Block().Succs[0].Dominates(r.Block()) {
				for _, v := range returnValues(r, 1) {
					if isNonNilErrorValue(m, v, 0) {
						okF = true
					}
				}
			}
		}
		if !okF {
			bad = "the failing branch does not return an error"
		}
		for _, a := range advs {
			if !updT.Block().Dominates(a.Block()) {
				bad = "the lists are advanced without the reply having been checked"
			}
		}
		// … and only to those: the reply to the last (or only) chunk is where the plugin's updates legitimately arrive
		nonFinal := false
		for _, cd := range controls(updT.Block()) {
			cd = normCond(cd)
			a := m.ap(cd.V)
			if len(a.Path) > 0 && a.Path[len(a.Path)-1] == "More" && cd.Pol {
				if _, isAlloc := a.Root.(*ssa.Alloc); isAlloc {
					nonFinal = true
				}
			}
		}
		if !nonFinal && bad == "" {
			bad = "the check for updates / an echoed More flag also runs on the reply to the final chunk: a plugin that returns updates from its Synchronize handler is rejected and closed, its updates never reach the runtime"
		}
	}
	pos := f.Pos()
	if updT != nil {
		pos = updT.Pos()
	}
	c.ok("B3", "synchronize/split-reply", pos, bad == "", "a plugin that does not handle split sync requests fails the synchronization", bad)
	// a failed synchronization leaves a closed plugin behind: whether the plugin becomes active is decided by what
	// the runtime's sync callback returns, which may swallow this function's error — a plugin that is still open then
	// is activated without a snapshot
	closeM := m.method(pkgAdapt, "plugin", "close")
	nFail := 0
	for _, r := range returnsOf(f) {
		fails := false
		for _, v := range returnValues(r, 1) {
			if !isNilConst(v) {
				fails = true
			}
		}
		if !fails {
			continue
		}
		nFail++
		closed := false
		for _, ci := range m.callsTo(f, closeM) {
			if ci.Common().Args[0] == ssa.Value(f.Params[0]) && domInstr(ci, r) {
				closed = true
			}
		}
		c.ok("B3", fmt.Sprintf("synchronize/fail-closes#%d", nFail), r.Pos(), closed, "a failing synchronization closes the plugin before it returns the error",
			"this failing return is not preceded by p.close(): a runtime whose sync callback does not pass the error on activates a plugin that never received its snapshot (closed plugins are dropped from the list, open ones are not)")
	}
	// the walk ends on the sender's own More flag, never on what the plugin replied
	isReplyRoot := func(root ssa.Value, at ssa.Instruction) bool {
		for _, src := range valueSources(root, at, 0) {
			if call, ok := src.(*ssa.Call); ok {
				if g := m.callee(call.Common()); g != nil && recvNamed(g) != nil && tname(recvNamed(g).Obj()) == "pluginType" {
					return true
				}
			}
			if ex, ok := src.(*ssa.Extract); ok {
				if call, ok := ex.Tuple.(*ssa.Call); ok {
					if g := m.callee(call.Common()); g != nil && recvNamed(g) != nil && tname(recvNamed(g).Obj()) == "pluginType" {
						return true
					}
				}
			}
		}
		return false
	}
	for _, r := range returnsOf(f) {
		success := false
		for _, v := range returnValues(r, 1) {
			if isNilConst(v) {
				success = true
			}
		}
		if !success {
			continue
		}
		ownFlag, replyFlag := false, false
		for _, cd := range controls(r.Block()) {
			cd = normCond(cd)
			a := m.ap(cd.V)
			if len(a.Path) == 0 || a.Path[len(a.Path)-1] != "More" {
				continue
			}
			if isReplyRoot(a.Root, cd.If) {
				replyFlag = true
			} else if !cd.Pol {
				ownFlag = true
			}
		}
		badE := ""
		switch {
		case replyFlag:
			badE = "the successful end of the synchronization depends on the More flag of the plugin's reply: a plugin that does not echo the flag (one that predates split synchronization) ends the walk after the first chunk, is reported as synchronized and becomes active having seen only a prefix of the state"
		case !ownFlag:
			badE = "the successful return is not controlled by the request's More flag being false: the synchronization can end before the last chunk was sent"
		}
		c.ok("B3", "synchronize/ends-on-own-flag", r.Pos(), badE == "", "the synchronization succeeds only after the chunk the sender itself marked as the last one", badE)
	}
}

func ruleB5(c *Ctx) {
	m := c.M
	c.rule("B5", "receiver: collectSync appends both the pods and the containers of a chunk to the stored request's lists (stored list first) under the stub lock; deliverSync takes and clears the stored request under the lock, calls the handler exactly once on every path with the concatenation of stored and final chunk, and returns its updates and error", 6)
	la := allLocks(c)
	stT := m.named(pkgStub, "stub")
	cs := m.method(pkgStub, "stub", "collectSync")
	ds := m.method(pkgStub, "stub", "deliverSync")
	for _, f := range []*ssa.Function{cs, ds} {
		got := map[string]bool{}
		for _, b := range f.Blocks {
			for _, in := range b.Instrs {
				st, ok := in.(*ssa.Store)
				if !ok {
					continue
				}
				ap, ok := isBuiltinCall(st.Val, "append")
				if !ok || len(ap.Call.Args) != 2 {
					continue
				}
				dst, base, add := m.ap(st.Addr), m.ap(ap.Call.Args[0]), m.ap(ap.Call.Args[1])
				if len(dst.Path) == 0 {
					continue
				}
				fld := dst.Path[len(dst.Path)-1]
				sameBase := base.Root == dst.Root && base.PathString() == dst.PathString()
				fromReq := add.Root == ssa.Value(f.Params[len(f.Params)-1]) && add.PathString() == fld
				if sameBase && fromReq {
					got[fld] = true
				} else {
					c.violate("B5", f.Name()+"/append/"+fld, st.Pos(), f.Name()+" appends the chunk's "+fld+" after the stored ones", "the append does not have the stored list as first operand and the chunk's same-named list as second: objects are lost, reordered or mixed between pods and containers")
				}
			}
		}
		for _, fld := range []string{"Pods", "Containers"} {
			if !got[fld] {
				c.violate("B5", f.Name()+"/append/"+fld, f.Pos(), f.Name()+" appends the chunk's "+fld+" after the stored ones", "no such append: the "+strings.ToLower(fld)+" of this chunk are dropped")
			} else {
				c.add("B5", f.Name()+"/append/"+fld, f.Pos(), Discharged, f.Name()+" appends the chunk's "+fld+" after the stored ones", "")
			}
		}
	}
	// collectSync under the stub lock
	okL := true
	for _, fa := range m.fieldAddrs(cs, stT, "syncReq") {
		if !la.holds(fa, "stub.Mutex", 'W') {
			okL = false
		}
	}
	c.ok("B5", "collectSync/locked", cs.Pos(), okL, "collectSync accesses the stored request under the stub lock", "stub.syncReq is accessed without the stub lock")
	// deliverSync: take and clear under the lock
	tookOK, clearOK := false, false
	for _, b := range ds.Blocks {
		for _, in := range b.Instrs {
			switch x := in.(type) {
			case *ssa.UnOp:
				if fa, ok := x.X.(*ssa.FieldAddr); ok && isFieldOf(fa, stT, "syncReq") && la.holds(x, "stub.Mutex", 'W') {
					tookOK = true
				}
			case *ssa.Store:
				if fa, ok := x.Addr.(*ssa.FieldAddr); ok && isFieldOf(fa, stT, "syncReq") && isNilConst(x.Val) && la.holds(x, "stub.Mutex", 'W') {
					clearOK = true
				}
			}
		}
	}
	c.ok("B5", "deliverSync/take-clear", ds.Pos(), tookOK && clearOK, "deliverSync takes the stored request and clears it under the stub lock",
		"the stored request is not cleared (or not under the lock): a later synchronization delivers stale objects again")
	// a partial request does not survive the session: close() clears it
	clM := m.method(pkgStub, "stub", "close")
	okReset := false
	for _, fs := range m.fieldStores(clM, stT, "syncReq") {
		if isNilConst(fs.Store.Val) {
			okReset = true
		}
	}
	c.ok("B5", "close/clears-partial", clM.Pos(), okReset, "the chunks collected so far are discarded when the session ends",
		"stub.close() does not clear the stored partial request: after an aborted split synchronization the next session's handler is given the stale chunks in front of the runtime's state")
	// handler called exactly once on every path, with the concatenated lists
	var hcalls []*ssa.Call
	for _, ci := range calls(ds) {
		call, ok := ci.(*ssa.Call)
		if !ok || call.Call.IsInvoke() || m.callee(call.Common()) != nil {
			continue
		}
		a := m.ap(call.Call.Value)
		if a.PathString() == "handlers.Synchronize" {
			hcalls = append(hcalls, call)
		}
	}
	bad := ""
	if len(hcalls) != 1 {
		bad = fmt.Sprintf("%d handler call sites", len(hcalls))
	} else {
		h := hcalls[0]
		for _, r := range returnsOf(ds) {
			if !domInstr(h, r) {
				bad = "a return is reachable without the handler having been called"
			}
			if len(r.Results) == 2 {
				// Update field of the response <- result 0, error <- result 1
				okU, okE := false, false
				for _, fl := range m.fieldFlows(ds) {
					if fl.Path == "Update" {
						if ex, ok := fl.Val.(*ssa.Extract); ok && ex.Tuple == ssa.Value(h) && ex.Index == 0 {
							okU = true
						}
					}
				}
				if ex, ok := r.Results[1].(*ssa.Extract); ok && ex.Tuple == ssa.Value(h) && ex.Index == 1 {
					okE = true
				}
				if !okU || !okE {
					bad = "the handler's updates/error are not what the response returns"
				}
			}
		}
		if inLoop(h.Block()) {
			bad = "the handler is called in a loop"
		}
		// arguments: the Pods / Containers of the merged request
		pa, ca := m.ap(h.Call.Args[1]), m.ap(h.Call.Args[2])
		if !(strings.HasSuffix(pa.PathString(), "Pods") && strings.HasSuffix(ca.PathString(), "Containers") && pa.Root == ca.Root) {
			bad = "the handler is not given the merged request's Pods and Containers"
		}
	}
	pos := ds.Pos()
	if len(hcalls) > 0 {
		pos = hcalls[0].Pos()
	}
	c.ok("B5", "deliverSync/handler-once", pos, bad == "", "deliverSync calls the Synchronize handler exactly once with the complete lists and returns its results", bad)
}

// ruleB6: the structural pieces of the retry loop's termination / clean failure.
func ruleB6(c *Ctx) {
	m := c.M
	c.rule("B6", "clean failure of the retry: recalcObjsPerSyncMsg returns an error (so that synchronize closes the plugin and fails) when the error is not a resource-exhausted/oversized-message error, when the chunk is already at or below the minimum, and when the reported lengths are unusable; the shrink factor is clamped to a constant below 1; synchronize returns the error and closes the plugin", 4)
	f := m.fn(pkgAdapt, "recalcObjsPerSyncMsg")
	pods, ctrs := f.Params[0], f.Params[1]
	// (1) floor test: pods+ctrs <= const  -> non-nil error
	floorOK, clampOK, codeOK := false, false, false
	for _, b := range f.Blocks {
		iff := lastIf(b)
		if iff == nil {
			continue
		}
		bo, ok := iff.Cond.(*ssa.BinOp)
		if !ok {
			continue
		}
		failing := func(blk *ssa.BasicBlock) bool {
			if r, ok := blk.Instrs[len(blk.Instrs)-1].(*ssa.Return); ok {
				for _, v := range returnValues(r, 2) {
					if isNilConst(v) {
						return false
					}
				}
				return true
			}
			return false
		}
		if sum, ok := bo.X.(*ssa.BinOp); ok && sum.Op == token.ADD && ((sum.X == ssa.Value(pods) && sum.Y == ssa.Value(ctrs)) || (sum.X == ssa.Value(ctrs) && sum.Y == ssa.Value(pods))) {
			if k, ok := constInt(bo.Y); ok && k > 0 && (bo.Op == token.LEQ || bo.Op == token.LSS) && failing(b.Succs[0]) {
				floorOK = true
			}
		}
		// (3) status code test
		if call, ok := bo.X.(*ssa.Call); ok {
			if g := m.callee(call.Common()); g != nil && g.Name() == "Code" && bo.Op == token.NEQ && failing(b.Succs[0]) {
				if k, ok := constInt(bo.Y); ok && k == 8 { // codes.ResourceExhausted
					codeOK = true
				}
			}
		}
		// (2) factor clamp: factor > const(<1) -> factor = const
		if bo.Op == token.GTR {
			if cst, ok := bo.Y.(*ssa.Const); ok && cst.Value != nil {
				if fv, ok := floatVal(cst); ok && fv > 0 && fv < 1 {
					clampOK = true
				}
			}
		}
	}
	// raising a count to a constant minimum is decided on the total, not per kind
	okTotal := true
	nReset := 0
	for _, b := range f.Blocks {
		for _, in := range b.Instrs {
			ph, ok := in.(*ssa.Phi)
			if !ok {
				continue
			}
			for i, e := range ph.Edges {
				if k, isC := constInt(e); isC && k > 0 {
					nReset++
					pred := ph.Block().Preds[i]
					onSum := false
					// the nearest condition: the one that selects this edge
					if cds := controls(pred); len(cds) > 0 {
						if bo, ok := normCond(cds[0]).V.(*ssa.BinOp); ok {
							if sum, ok := bo.X.(*ssa.BinOp); ok && sum.Op == token.ADD {
								onSum = true
							}
						}
					}
					if !onSum {
						okTotal = false
					}
				}
			}
		}
	}
	c.ok("B6", "recalc/reset-on-total", f.Pos(), okTotal && nReset > 0, "a count is raised to the minimum only when the total number of objects per message fell below the minimum",
		"a count is raised to a constant under a condition on that count alone: the kind with few large objects can never be sent fewer than that many at a time, so a transmissible state fails to synchronize")
	c.ok("B6", "recalc/floor", f.Pos(), floorOK, "recalcObjsPerSyncMsg gives up when the chunk is already at the minimum", "no failing branch under pods+ctrs <= minimum: a state that cannot be transmitted is retried forever instead of failing the registration")
	c.ok("B6", "recalc/clamp", f.Pos(), clampOK, "the shrink factor is clamped to a constant below 1", "the shrink factor is not clamped below 1: a retry may not shrink the message")
	c.ok("B6", "recalc/code", f.Pos(), codeOK, "only resource-exhausted errors are retried", "errors other than resource-exhausted are retried (or the code test is missing)")
	// synchronize: on recalc's error -> close + return the error
	syn := m.method(pkgAdapt, "plugin", "synchronize")
	closeM := m.method(pkgAdapt, "plugin", "close")
	okS := false
	for _, ci := range m.callsTo(syn, f) {
		call := ci.(*ssa.Call)
		for _, fb := range errFailBlocks(call) {
			closed, ret := false, false
			for _, cc := range m.callsTo(syn, closeM) {
				if fb.Dominates(cc.Block()) {
					closed = true
				}
			}
			for _, r := range returnsOf(syn) {
				if fb.Dominates(r.Block()) {
					for _, v := range returnValues(r, 1) {
						if !isNilConst(v) {
							ret = true
						}
					}
				}
			}
			okS = closed && ret
		}
	}
	c.ok("B6", "synchronize/give-up", syn.Pos(), okS, "when the chunk cannot be shrunk any further synchronize closes the plugin and returns the error", "the failing branch of the recalculation does not close the plugin and return an error")
}

func floatVal(c *ssa.Const) (float64, bool) {
	if c.Value == nil {
		return 0, false
	}
	f, _ := constantFloat(c)
	return f, true
}

// ruleB7: progress of the chunk walk.
func ruleB7(c *Ctx) {
	m := c.M
	c.rule("B7", "progress: a per-message count that the retry path scales down can become zero by truncation; it is then raised to a positive constant while its list is non-empty (in the retry branch of plugin.synchronize or in recalcObjsPerSyncMsg itself), so that every accepted non-final chunk advances every non-empty list — otherwise the list whose count fell to zero is never sent and the walk spins on empty messages until the request timeout", 2)
	f := m.method(pkgAdapt, "plugin", "synchronize")
	rc := m.fn(pkgAdapt, "recalcObjsPerSyncMsg")
	var rcall *ssa.Call
	for _, ci := range m.callsTo(f, rc) {
		rcall, _ = ci.(*ssa.Call)
	}
	if rcall == nil {
		c.violate("B7", "synchronize/recalc", f.Pos(), "the retry path recomputes the per-message counts", "synchronize does not call recalcObjsPerSyncMsg")
		return
	}
	// zeroFloor: in fn there is a phi that merges x (with isCount(x)) and a constant >= 1, the constant's edge being
	// taken only when x was found to be zero (x == 0, x < 1, x <= 0)
	zeroFloor := func(fn *ssa.Function, isCount func(ssa.Value) bool) bool {
		for _, b := range fn.Blocks {
			for _, in := range b.Instrs {
				phi, ok := in.(*ssa.Phi)
				if !ok {
					continue
				}
				var x ssa.Value
				for _, e := range phi.Edges {
					if _, isC := e.(*ssa.Const); !isC && isCount(e) {
						x = e
					}
				}
				if x == nil {
					continue
				}
				for i, e := range phi.Edges {
					k, isC := constInt(e)
					if !isC || k < 1 {
						continue
					}
					pred := b.Preds[i]
					conds := controls(pred)
					if iff := lastIf(pred); iff != nil && pred.Succs[0] != pred.Succs[1] {
						conds = append(conds, Cond{V: iff.Cond, Pol: pred.Succs[0] == b, If: iff})
					}
					for _, cd := range conds {
						cd = normCond(cd)
						bo, ok := cd.V.(*ssa.BinOp)
						if !ok || bo.X != x {
							continue
						}
						z, isZ := constInt(bo.Y)
						if !isZ {
							continue
						}
						isZeroTest := (bo.Op == token.EQL && z == 0 && cd.Pol) || (bo.Op == token.NEQ && z == 0 && !cd.Pol) ||
							(bo.Op == token.LSS && z == 1 && cd.Pol) || (bo.Op == token.LEQ && z == 0 && cd.Pol) ||
							(bo.Op == token.GTR && z == 0 && !cd.Pol) || (bo.Op == token.GEQ && z == 1 && !cd.Pol)
						if isZeroTest {
							return true
						}
					}
				}
			}
		}
		return false
	}
	// the scale factor describes the message just rejected: it is applied to that message's counts (the values used
	// as the chunks' upper bounds), not to what is left of the lists
	{
		var his []ssa.Value
		for _, b := range f.Blocks {
			for _, in := range b.Instrs {
				if sl, ok := in.(*ssa.Slice); ok && sl.High != nil && sl.Low == nil {
					his = append(his, sl.High)
				}
			}
		}
		okArgs := len(rcall.Call.Args) >= 2
		for i := 0; i < 2 && okArgs; i++ {
			found := false
			for _, h := range his {
				if h == rcall.Call.Args[i] {
					found = true
				}
			}
			if !found {
				okArgs = false
			}
		}
		c.ok("B7", "recalc-from-sent-counts", rcall.Pos(), okArgs, "the retry recomputes the counts of the rejected message",
			"recalcObjsPerSyncMsg is not given the per-message counts the rejected chunk was built with (the upper bounds of the two chunk slices): scaled from anything else — e.g. the remaining totals — repeated rejections do not shrink the chunk and the walk resends an oversized message forever")
	}
	for k, name := range []string{"pods", "containers"} {
		k := k
		// in synchronize: the count derived from result #k of the recomputation (possibly clamped in between)
		var fromRecalc func(v ssa.Value, d int) bool
		fromRecalc = func(v ssa.Value, d int) bool {
			if d > 6 {
				return false
			}
			switch x := v.(type) {
			case *ssa.Extract:
				return x.Tuple == ssa.Value(rcall) && x.Index == k
			case *ssa.Phi:
				for _, e := range x.Edges {
					if fromRecalc(e, d+1) {
						return true
					}
				}
			case *ssa.Call:
				if bi, ok := x.Call.Value.(*ssa.Builtin); ok && bi.Name() == "min" {
					for _, a := range x.Call.Args {
						if fromRecalc(a, d+1) {
							return true
						}
					}
				}
			}
			return false
		}
		okS := zeroFloor(f, func(v ssa.Value) bool { return fromRecalc(v, 0) })
		// in recalcObjsPerSyncMsg: the scaled value that is returned as result #k
		okR := false
		if !okS {
			var scaled func(v ssa.Value, d int) bool
			scaled = func(v ssa.Value, d int) bool {
				if d > 6 {
					return false
				}
				switch x := v.(type) {
				case *ssa.Convert:
					if bo, ok := x.X.(*ssa.BinOp); ok && bo.Op == token.MUL {
						return derivedFrom(bo, rc.Params[k])
					}
				case *ssa.Phi:
					for _, e := range x.Edges {
						if scaled(e, d+1) {
							return true
						}
					}
				}
				return false
			}
			okR = zeroFloor(rc, func(v ssa.Value) bool { return scaled(v, 0) })
		}
		c.ok("B7", "progress/"+name, rcall.Pos(), okS || okR, "a "+name+" count scaled down to zero is raised to at least one while "+name+" remain",
			"the recomputed per-message count of "+name+" is int(count*factor) and can be 0 (for example 3 pods next to thousands of large containers: factor < 1/3); nothing raises it again, so the "+name+" are never sent: every later chunk carries none of them, More stays true, and once the other list is exhausted the walk sends empty messages until the request timeout and the registration fails — the state is not delivered although it is transmissible")
	}
}

// ruleB5echo: a non-final chunk is acknowledged with the sender's own More flag.
func ruleB5echo(c *Ctx) {
	m := c.M
	sy := m.method(pkgStub, "stub", "Synchronize")
	cs := m.method(pkgStub, "stub", "collectSync")
	n := 0
	for _, f := range []*ssa.Function{sy, cs} {
		req := f.Params[len(f.Params)-1]
		// the responses built here: composite literals of SynchronizeResponse
		built := 0
		var pos token.Pos
		for _, b := range f.Blocks {
			for _, in := range b.Instrs {
				if al, ok := in.(*ssa.Alloc); ok {
					if n := ptrNamed(al.Type()); n != nil && n.Obj().Name() == "SynchronizeResponse" {
						built++
						pos = al.Pos()
					}
				}
			}
		}
		if built == 0 {
			continue
		}
		n += built
		echoed := 0
		for _, fl := range m.fieldFlows(f) {
			if _, isAlloc := fl.Root.(*ssa.Alloc); isAlloc && fl.Path == "More" && fl.Src.Root == ssa.Value(req) && fl.Src.PathString() == "More" {
				echoed++
			}
		}
		c.ok("B5", f.Name()+"/echo-more", pos, echoed == built, f.Name()+" answers a chunk with the request's own More flag",
			fmt.Sprintf("%d of the %d responses built here do not carry the request's More flag: the runtime compares the two after every non-final chunk, so a plugin answering this way (for instance one without a Synchronize handler) is rejected exactly when the state has to be split", built-echoed, built))
	}
	if n == 0 {
		c.violate("B5", "echo-more", sy.Pos(), "the stub acknowledges chunks", "no response is built in Synchronize / collectSync")
	}
}
