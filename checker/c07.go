package main

import (
	"fmt"
	"go/token"
	"sort"
	"strings"

	"golang.org/x/tools/go/ssa"
)

func init() {
	register("C07", &propInfo{
		run: func(c *Ctx) {
			ruleF1(c)
			ruleF2(c)
			ruleF3(c)
			ruleF4(c)
			ruleO2(c) // F5: veto — error tested first, (nil, err) returned, loop stops
			ruleR5(c)
			ruleF6(c)
			ruleF7(c)
			ruleF8(c)
			ruleS2S3(c) // a plugin failing during registration does not leave the sync gate locked
		},
		explanation: "The fault space and the time bound are not statically reachable.  Decided is the handling structure every fault ends up in: every plugin RPC is made with a context derived by context.WithTimeout from the configured request timeout and its cancel is deferred; the fatal-error classification covers connection closed, server closed, protocol error and deadline exceeded; all relays agree — on an RPC error that is fatal the plugin is closed and the relay returns no reply and no error (the request continues), otherwise it returns exactly that error and no reply; every request method prunes closed plugins on every exit while still holding the adaptation lock, keeping exactly the plugins that are not closed; a relay error or merge error is tested before any use of the reply and returns (nil, err) at once; closing a plugin is idempotent and locked; the global lock-order graph over all locks of the adaptation, stub, net and multiplex packages has no cycle and no re-entrant acquisition. A plugin failing during registration releases the sync gate on every path. The context a request method hands to a relay is the request's own; the only error a relay ever returns is the handler's. The timeout setters store exactly what they are given.",
		notDecided: []string{
			"latency and the numeric bound (plugins x timeout)",
			"that a cut connection surfaces as one of the four fatal errors (ttRPC)",
			"absence of panics in general",
			"that a handler blocked inside the plugin cannot hold other resources",
		},
	})
}

// allRelays: every method of *plugin that performs a plugin RPC (request relays, configure, synchronize).
func ruleF1(c *Ctx) {
	m := c.M
	c.rule("F1", "deadline on every plugin RPC: the context passed to every pluginType RPC call is result #0 of a context.WithTimeout whose duration is getPluginRequestTimeout(), and the cancel function (result #1) is deferred", 7)
	timeoutFn := m.fn(pkgAdapt, "getPluginRequestTimeout")
	for _, f := range relayFamily(m) {
		for _, ci := range calls(f) {
			g := m.callee(ci.Common())
			if g == nil {
				continue
			}
			if rn := recvNamed(g); rn == nil || tname(rn.Obj()) != "pluginType" || g.Signature.Results().Len() == 0 || strings.HasPrefix(g.Name(), "is") {
				continue
			}
			key := f.Name() + "/" + g.Name()
			what := fmt.Sprintf("%s calls %s with a context bounded by the request timeout", f.Name(), g.Name())
			ctx := ci.Common().Args[1]
			ex, ok := ctx.(*ssa.Extract)
			bad := ""
			if !ok || ex.Index != 0 {
				bad = "the context passed is not the result of context.WithTimeout (the caller's own context is used): a plugin that never answers stalls the request forever"
			} else if wt, ok := ex.Tuple.(*ssa.Call); !ok || m.callee(wt.Common()) == nil || m.callee(wt.Common()).String() != "context.WithTimeout" {
				bad = "the context passed is not the result of context.WithTimeout"
			} else {
				d, ok := wt.Call.Args[1].(*ssa.Call)
				if !ok || m.callee(d.Common()) != timeoutFn {
					bad = "the timeout is not the configured plugin request timeout"
				}
				// cancel deferred
				deferred := false
				for _, r := range *wt.Referrers() {
					if e1, ok := r.(*ssa.Extract); ok && e1.Index == 1 {
						for _, rr := range *e1.Referrers() {
							if df, ok := rr.(*ssa.Defer); ok && df.Call.Value == ssa.Value(e1) {
								deferred = true
							}
						}
					}
				}
				if !deferred && bad == "" {
					bad = "the cancel function of the timeout context is not deferred"
				}
			}
			c.ok("F1", key, ci.Pos(), bad == "", what, bad)
		}
	}
	// the configured timeout is the timeout: the setter stores exactly its argument
	for _, sn := range []string{"SetPluginRequestTimeout", "SetPluginRegistrationTimeout"} {
		sf := m.fnOpt(pkgAdapt, sn)
		if sf == nil {
			continue
		}
		okS := false
		nStores := 0
		for _, b := range sf.Blocks {
			for _, in := range b.Instrs {
				if st, ok := in.(*ssa.Store); ok {
					if _, isG := st.Addr.(*ssa.Global); isG {
						nStores++
						okS = st.Val == ssa.Value(sf.Params[0])
					}
				}
			}
		}
		c.ok("F1", "setter/"+sn, sf.Pos(), okS && nStores == 1, sn+" stores exactly the duration it is given",
			"the setter stores something other than its argument (a clamped or defaulted value): the bound 'plugins x request timeout' is then not the configured one — a hanging plugin is dropped later than configured")
	}
	// each plugin gets its own full timeout: the context a request method hands to a relay is the request's own,
	// not one whose deadline was started in the request method (shared by, or chained across, the plugins)
	for _, f := range m.funcsInPkg(pkgAdapt) {
		rn := recvNamed(f)
		if rn == nil || tname(rn.Obj()) != "Adaptation" || len(f.Params) < 2 {
			continue
		}
		relays := map[*ssa.Function]bool{}
		for _, r := range requestRelays(m) {
			relays[r] = true
		}
		for _, ci := range calls(f) {
			g := m.callee(ci.Common())
			if g == nil || !relays[g] || len(ci.Common().Args) < 2 {
				continue
			}
			bad := ""
			for _, src := range valueSources(ci.Common().Args[1], ci, 0) {
				if src == ssa.Value(f.Params[1]) {
					continue
				}
				if ex, ok := src.(*ssa.Extract); ok {
					if w, ok := ex.Tuple.(*ssa.Call); ok {
						if h := m.callee(w.Common()); h != nil && (h.String() == "context.WithTimeout" || h.String() == "context.WithDeadline") {
							bad = "the context passed to the relay carries a deadline started in " + funcKey(f) + " (at " + c.pos(w.Pos()) + "): the plugins share one deadline, so a slow plugin uses up the time of the healthy ones after it — they fail with DeadlineExceeded at once, are dropped as faulty and their contributions are lost"
							continue
						}
					}
				}
				if bad == "" {
					bad = "the context passed to the relay is not the request's own context (" + src.String() + ")"
				}
			}
			c.ok("F1", funcKey(f)+"/ctx/"+g.Name(), ci.Pos(), bad == "", funcKey(f)+" hands the request's own context to "+g.Name(), bad)
		}
	}
}

func ruleF2(c *Ctx) {
	m := c.M
	c.rule("F2", "fatal classification: isFatalError returns true for errors that are (errors.Is) ttrpc.ErrClosed, ttrpc.ErrServerClosed, ttrpc.ErrProtocol and context.DeadlineExceeded — the property's disconnect / protocol / timeout faults", 4)
	f := m.fn(pkgAdapt, "isFatalError")
	got := map[string]bool{}
	// sentinelTest: v is errors.Is(<the parameter>, <sentinel error variable>)
	sentinelTest := func(v ssa.Value) string {
		call, ok := v.(*ssa.Call)
		if !ok {
			return ""
		}
		if g := m.callee(call.Common()); g == nil || g.String() != "errors.Is" || call.Call.Args[0] != ssa.Value(f.Params[0]) {
			return ""
		}
		if u, ok := call.Call.Args[1].(*ssa.UnOp); ok {
			if gl, ok := u.X.(*ssa.Global); ok {
				return gl.Pkg.Pkg.Path() + "." + gl.Name()
			}
		}
		return ""
	}
	// the result is decided by sentinel tests only: every source of the returned value is the constant
	// false, a sentinel test itself (`a || b` chains), or the constant true on an edge taken only when a
	// sentinel test held (a handler's own error must veto the request, not drop the plugin)
	type src struct {
		v    ssa.Value
		from *ssa.BasicBlock // block the value flows out of
		to   *ssa.BasicBlock
	}
	var sources func(v ssa.Value, from, to *ssa.BasicBlock, seen map[ssa.Value]bool) []src
	sources = func(v ssa.Value, from, to *ssa.BasicBlock, seen map[ssa.Value]bool) []src {
		if phi, ok := v.(*ssa.Phi); ok {
			if seen[v] {
				return nil
			}
			seen[v] = true
			var out []src
			for i, e := range phi.Edges {
				out = append(out, sources(e, phi.Block().Preds[i], phi.Block(), seen)...)
			}
			return out
		}
		return []src{{v, from, to}}
	}
	nTrue := 0
	for _, r := range returnsOf(f) {
		for _, s := range sources(r.Results[0], r.Block(), nil, map[ssa.Value]bool{}) {
			if isConstBool(s.v, false) {
				continue
			}
			if w := sentinelTest(s.v); w != "" {
				got[w] = true
				continue
			}
			// slices.ContainsFunc(table, func(t error) bool { return errors.Is(err, t) }) over a constant table of sentinels
			if ws, ok := sentinelTable(m, f, s.v); ok {
				for _, w := range ws {
					got[w] = true
				}
				continue
			}
			if !isConstBool(s.v, true) {
				c.violate("F2", "only-sentinels/computed", r.Pos(), "isFatalError is decided by sentinel tests only", "isFatalError returns a computed value ("+s.v.String()+")")
				continue
			}
			nTrue++
			conds := controls(s.from)
			if iff := lastIf(s.from); iff != nil && s.to != nil && s.from.Succs[0] != s.from.Succs[1] {
				conds = append(conds, Cond{V: iff.Cond, Pol: s.from.Succs[0] == s.to, If: iff})
			}
			okS := false
			for _, cd := range conds {
				cd = normCond(cd)
				if w := sentinelTest(cd.V); w != "" && cd.Pol {
					okS = true
					got[w] = true
				}
			}
			c.ok("F2", fmt.Sprintf("only-sentinels#%d", nTrue), r.Pos(), okS, "this `true` result of isFatalError is reached only when errors.Is(err, <sentinel>) held",
				"an error is classified as fatal by something other than errors.Is against a sentinel (e.g. a status code that a plugin's handler can return): such a handler error drops the plugin and lets the request continue instead of vetoing it")
		}
	}
	for _, w := range []string{"github.com/containerd/ttrpc.ErrClosed", "github.com/containerd/ttrpc.ErrServerClosed", "github.com/containerd/ttrpc.ErrProtocol", "context.DeadlineExceeded"} {
		c.ok("F2", w, f.Pos(), got[w], "isFatalError classifies "+w+" as fatal for the plugin", "this error is not classified as fatal: a plugin failing this way vetoes the request instead of being dropped")
	}
}

// relayErrShape describes how a relay handles the RPC error.
type relayErrShape struct {
	fatalCloses, fatalReturnsNil, nonFatalReturnsErr, replyNil bool
	detail                                                     string
}

func ruleF3(c *Ctx) {
	m := c.M
	c.rule("F3", "sibling agreement of relays: in each request relay, on a non-nil RPC error, if isFatalError(err) the plugin is closed and the relay returns a nil error and no reply, otherwise it returns that very error and no reply", 5)
	isFatal := m.fn(pkgAdapt, "isFatalError")
	closeM := m.method(pkgAdapt, "plugin", "close")
	for _, f := range requestRelays(m) {
		rpc, g := rpcCallIn(m, f)
		call, ok := rpc.(*ssa.Call)
		what := fmt.Sprintf("relay %s drops a fatally failing plugin and passes handler errors on", f.Name())
		if !ok {
			c.violate("F3", f.Name(), f.Pos(), what, "RPC is not a plain call")
			continue
		}
		_ = g
		ev := errResult(call)
		bad := ""
		tests := nilTestsOf(ev)
		// the error may first be stored in a named result; follow loads of the alloc
		if len(tests) == 0 {
			for _, r := range *ev.Referrers() {
				if st, ok := r.(*ssa.Store); ok {
					if al, ok := st.Addr.(*ssa.Alloc); ok {
						for _, rr := range *al.Referrers() {
							if ld, ok := rr.(*ssa.UnOp); ok && ld.Op == token.MUL && reachesUnkilled(st, ld, storesTo(al)) {
								tests = append(tests, nilTestsOf(ld)...)
							}
						}
					}
				}
			}
		}
		if len(tests) == 0 {
			bad = "the RPC error is not tested"
		}
		evIs := func(v ssa.Value) bool {
			if v == ev || derivedFrom(v, ev) {
				return true
			}
			if ld, ok := v.(*ssa.UnOp); ok {
				if al, ok := ld.X.(*ssa.Alloc); ok {
					for _, s := range storesTo(al) {
						if s.(*ssa.Store).Val == ev {
							return true
						}
					}
				}
			}
			return false
		}
		for _, t := range tests {
			if b := fatalTail(m, f, t.NonNil, evIs, f.Params[0], isFatal, closeM); b != "" {
				bad = b
			}
		}
		// the only error a relay ever returns is the handler's: anything else (a sentinel for "connection gone", a
		// wrapped error of its own) would be taken for a handler's veto by the request loop
		if bad == "" {
			nres := f.Signature.Results().Len()
			for _, r := range returnsOf(f) {
				for _, v := range returnValues(r, nres-1) {
					if isNilConst(v) || evIs(v) {
						continue
					}
					if hc, ok := v.(*ssa.Call); ok {
						// the delegated classification (checked by fatalTail above)
						deleg := false
						for _, a := range hc.Call.Args {
							if evIs(a) {
								deleg = true
							}
						}
						if deleg {
							continue
						}
					}
					bad = fmt.Sprintf("the relay returns an error of its own at %s (%s), not the handler's: the request loop treats every relay error as the plugin's veto, so the request fails and later plugins are skipped although no handler refused it", c.pos(r.Pos()), v)
				}
			}
		}
		c.ok("F3", f.Name(), call.Pos(), bad == "", what, bad)
	}
}

// fatalTail checks the region of f dominated by fb (the branch on which the relayed call failed):
// the error is classified with isFatalError; on the fatal side the plugin recv is closed and only
// nil/zero values are returned; on the other side the error itself is returned next to nil replies.
// The classification may be delegated to a helper of the same shape (called with the error and the
// same plugin) whose result is returned as the error.
func fatalTail(m *Module, f *ssa.Function, fb *ssa.BasicBlock, evIs func(ssa.Value) bool, recv ssa.Value, isFatal, closeM *ssa.Function) string {
	nres := f.Signature.Results().Len()
	bad := ""
	var fatalIf *ssa.If
	for _, b := range f.Blocks {
		if !fb.Dominates(b) {
			continue
		}
		if iff := lastIf(b); iff != nil {
			if cl, ok := normCond(Cond{V: iff.Cond, Pol: true}).V.(*ssa.Call); ok && m.callee(cl.Common()) == isFatal {
				fatalIf = iff
			}
		}
	}
	if fatalIf == nil {
		// delegation: every return of the failing region returns h(…, err, …) as its error, h having the shape itself
		delegated := 0
		for _, r := range returnsOf(f) {
			if !fb.Dominates(r.Block()) {
				continue
			}
			okD := false
			for _, v := range returnValues(r, nres-1) {
				hc, ok := v.(*ssa.Call)
				if !ok {
					continue
				}
				h := m.callee(hc.Common())
				if h == nil || h.Pkg == nil || h.Pkg.Pkg.Path() != pkgAdapt || len(h.Blocks) == 0 || h == f {
					continue
				}
				ei, ri := -1, -1
				for i, a := range hc.Call.Args {
					if evIs(a) {
						ei = i
					}
					if a == recv {
						ri = i
					}
				}
				if ei < 0 || ri < 0 {
					continue
				}
				hev := ssa.Value(h.Params[ei])
				if b := fatalTail(m, h, h.Blocks[0], func(v ssa.Value) bool { return v == hev || derivedFrom(v, hev) }, h.Params[ri], isFatal, closeM); b != "" {
					return b + " (in " + funcKey(h) + ")"
				}
				okD = true
			}
			if !okD {
				return "the failing branch does not classify the error with isFatalError: transport failures veto the request (or handler errors are swallowed)"
			}
			delegated++
			for i := 0; i < nres-1; i++ {
				for _, v := range returnValues(r, i) {
					if !isNilConst(v) && !isZeroConst(v) {
						return "the failing branch returns a reply next to the error"
					}
				}
			}
		}
		if delegated == 0 {
			return "the failing branch does not classify the error with isFatalError: transport failures veto the request (or handler errors are swallowed)"
		}
		return ""
	}
	fatalB, otherB := fatalIf.Block().Succs[0], fatalIf.Block().Succs[1]
	if cd := normCond(Cond{V: fatalIf.Cond, Pol: true}); !cd.Pol {
		fatalB, otherB = otherB, fatalB
	}
	closed := false
	for _, b := range f.Blocks {
		if !fatalB.Dominates(b) {
			continue
		}
		for _, in := range b.Instrs {
			if cl, ok := in.(*ssa.Call); ok && m.callee(cl.Common()) == closeM && cl.Call.Args[0] == recv {
				closed = true
			}
		}
	}
	if !closed {
		bad = "the fatal branch does not close the plugin: it keeps receiving requests"
	}
	fatalOwnReturn := false
	for _, r := range returnsOf(f) {
		if fatalB.Dominates(r.Block()) {
			fatalOwnReturn = true
		}
	}
	for _, r := range returnsOf(f) {
		if !fatalOwnReturn && canReach(fatalB, r.Block()) {
			// the fatal branch falls through to a shared return: what that return yields on the way through the branch
			for i := 0; i < nres; i++ {
				for _, v := range valuesVia(r, i, fatalB) {
					if !isNilConst(v) && !isZeroConst(v) {
						if i == nres-1 {
							bad = "the fatal branch returns an error: a disconnected or timed-out plugin fails the whole request"
						} else {
							bad = "the fatal branch returns a reply"
						}
					}
				}
			}
		}
		if fatalB.Dominates(r.Block()) {
			for i := 0; i < nres; i++ {
				for _, v := range returnValues(r, i) {
					if !isNilConst(v) && !isZeroConst(v) {
						if i == nres-1 {
							bad = "the fatal branch returns an error: a disconnected or timed-out plugin fails the whole request"
						} else {
							bad = "the fatal branch returns a reply"
						}
					}
				}
			}
		}
		if otherB.Dominates(r.Block()) {
			okE := false
			for _, v := range returnValues(r, nres-1) {
				if evIs(v) {
					okE = true
				}
			}
			if !okE {
				bad = "the non-fatal branch does not return the handler's error: a handler error does not veto the request"
			}
			for i := 0; i < nres-1; i++ {
				for _, v := range returnValues(r, i) {
					if !isNilConst(v) && !isZeroConst(v) {
						bad = "the non-fatal branch returns a reply next to the error"
					}
				}
			}
		}
	}
	return bad
}

// valuesVia: what return r yields as result i on the paths that pass through the region dominated by
// via: for a phi the edges coming out of the region, for a spilled (named) result the stores made
// inside the region — and, when the region does not set it, whatever can reach the return at all.
func valuesVia(r *ssa.Return, i int, via *ssa.BasicBlock) []ssa.Value {
	v := r.Results[i]
	switch x := v.(type) {
	case *ssa.Phi:
		var out []ssa.Value
		for k, e := range x.Edges {
			if via.Dominates(x.Block().Preds[k]) {
				out = append(out, e)
			}
		}
		if len(out) > 0 {
			return out
		}
	case *ssa.UnOp:
		if al, ok := x.X.(*ssa.Alloc); ok && x.Op == token.MUL {
			var out []ssa.Value
			for _, st := range storesTo(al) {
				if via.Dominates(st.Block()) {
					out = append(out, st.(*ssa.Store).Val)
				}
			}
			if len(out) > 0 {
				return out
			}
		}
	}
	return returnValues(r, i)
}

func storesTo(al *ssa.Alloc) []ssa.Instruction {
	var out []ssa.Instruction
	for _, r := range *al.Referrers() {
		if st, ok := r.(*ssa.Store); ok && st.Addr == ssa.Value(al) {
			out = append(out, st)
		}
	}
	return out
}

func ruleF4(c *Ctx) {
	m := c.M
	c.rule("F4", "prune on every exit: every request method that relays to plugins defers removeClosedPlugins so that it runs on every exit while the adaptation lock is still held; removeClosedPlugins keeps exactly the plugins for which isClosed() is false", 6)
	la := adaptationLocks(c)
	rm := m.method(pkgAdapt, "Adaptation", "removeClosedPlugins")
	relays := map[*ssa.Function]bool{}
	for _, r := range requestRelays(m) {
		relays[r] = true
	}
	for _, f := range m.methodsOf(pkgAdapt, "Adaptation") {
		uses := false
		for _, ci := range calls(f) {
			if g := m.callee(ci.Common()); g != nil && relays[g] {
				uses = true
			}
		}
		if !uses {
			continue
		}
		// the prune is deferred directly, or called inside a deferred closure
		var df *ssa.Defer
		var inner ssa.CallInstruction
		for _, ci := range m.callsTo(f, rm) {
			if d, ok := ci.(*ssa.Defer); ok {
				df = d
			}
		}
		if df == nil {
			for _, b := range f.Blocks {
				for _, in := range b.Instrs {
					d, ok := in.(*ssa.Defer)
					if !ok {
						continue
					}
					if cf := closureFn(d.Call.Value); cf != nil && cf.Parent() == f {
						for _, ci := range m.callsTo(cf, rm) {
							df, inner = d, ci
						}
					}
				}
			}
		}
		what := f.Name() + " prunes closed plugins on every exit, under the lock"
		if df == nil {
			c.violate("F4", f.Name(), f.Pos(), what, "removeClosedPlugins is not deferred: a plugin closed during this request keeps its place in the list")
			continue
		}
		bad := ""
		// registered before any relay call (dominates all returns after the lock)
		for _, r := range returnsOf(f) {
			if !domInstr(df, r) && la.holds(r, "Adaptation.Mutex", 'W') {
				bad = fmt.Sprintf("the return at %s is not covered by the deferred prune", c.pos(r.Pos()))
			}
		}
		held := false
		if inner != nil {
			held = la.holds(inner, "Adaptation.Mutex", 'W')
		} else if rs, ok := la.atReplay[df]; ok {
			held = rs[lockID{"Adaptation.Mutex", 'W'}]
		}
		if !held {
			bad = "when the deferred prune runs the adaptation lock has already been released (defer order): the list is modified concurrently with other requests"
		}
		c.ok("F4", f.Name(), df.Pos(), bad == "", what, bad)
	}
	// the filter
	isClosed := m.method(pkgAdapt, "plugin", "isClosed")
	adT := m.named(pkgAdapt, "Adaptation")
	okF := false
	detail := "removeClosedPlugins does not assign the list of not-closed plugins to r.plugins"
	mf := newMergeFn(m, rm)
	for _, fs := range m.fieldStores(rm, adT, "plugins") {
		ins, local := mf.insertions(fs.Store.Val)
		if !local || len(ins) == 0 {
			continue
		}
		all := true
		for _, i := range ins {
			kept := false
			for _, cd := range controls(i.site.Block()) {
				cd = normCond(cd)
				if cl, ok := cd.V.(*ssa.Call); ok && m.callee(cl.Common()) == isClosed && !cd.Pol && i.elem != nil && cl.Call.Args[0] == i.elem {
					kept = true
				}
			}
			if !kept {
				all = false
			}
		}
		if all {
			okF = true
		}
	}
	c.ok("F4", "removeClosedPlugins/filter", rm.Pos(), okF, "removeClosedPlugins keeps exactly the plugins whose isClosed() is false", detail)
}

func ruleF6(c *Ctx) {
	m := c.M
	c.rule("F6", "close is idempotent and locked: plugin.close tests and sets the closed flag under the plugin's mutex (the lock-free branch is only taken for in-process WASM plugins) and returns early when already closed; isClosed reads the flag under the same mutex", 3)
	la := adaptationLocks(c)
	plT := m.named(pkgAdapt, "plugin")
	cl := m.method(pkgAdapt, "plugin", "close")
	n := 0
	for _, fs := range m.fieldStores(cl, plT, "closed") {
		n++
		locked := la.holds(fs.Store, "plugin.Mutex", 'W')
		wasm := false
		for _, cd := range controls(fs.Store.Block()) {
			cd = normCond(cd)
			if call, ok := cd.V.(*ssa.Call); ok && cd.Pol {
				if g := m.callee(call.Common()); g != nil && g == m.method(pkgAdapt, "pluginType", "isWasm") {
					wasm = true
				}
			}
		}
		// test-and-set: dominated by the false branch of a load of the same flag
		tested := false
		for _, cd := range controls(fs.Store.Block()) {
			cd = normCond(cd)
			if ld, ok := cd.V.(*ssa.UnOp); ok && !cd.Pol {
				if fa, ok := ld.X.(*ssa.FieldAddr); ok && isFieldOf(fa, plT, "closed") {
					tested = true
				}
			}
		}
		key := "close/set"
		if wasm {
			key = "close/set-wasm"
		}
		c.ok("F6", key, fs.Store.Pos(), wasm || (locked && tested), "plugin.close sets the closed flag once, under the plugin's mutex",
			"the closed flag is set without the plugin's mutex or without testing it first: concurrent closers both shut the connections down (double close) or a closer races with isClosed")
	}
	if n == 0 {
		c.violate("F6", "close/set", cl.Pos(), "plugin.close records that the plugin is closed", "no store to plugin.closed: the plugin is never pruned")
	}
	ic := m.method(pkgAdapt, "plugin", "isClosed")
	okR := false
	for _, fa := range m.fieldAddrs(ic, plT, "closed") {
		if la.holds(fa, "plugin.Mutex", 0) {
			okR = true
		}
	}
	c.ok("F6", "isClosed", ic.Pos(), okR, "isClosed reads the flag under the plugin's mutex", "the flag is read without the lock")
}

// allLocks is the lock analysis over every package that takes locks.
var allLocksLA *lockAnalysis

func allLocks(c *Ctx) *lockAnalysis {
	if allLocksLA == nil || allLocksLA.m != c.M {
		allLocksLA = newLockAnalysis(c.M, pkgAdapt, pkgStub, pkgMux, pkgNet)
	}
	return allLocksLA
}

func ruleF7(c *Ctx) {
	c.rule("F7", "lock order: the global lock-order graph (an edge held -> acquired at every acquisition, over the adaptation, stub, net and multiplex packages, including sync.Once bodies) has no cycle between distinct locks and no re-entrant acquisition of an exclusive lock", 1)
	la := allLocks(c)
	adj := map[string]map[string]lockEdge{}
	for _, e := range append(append([]lockEdge{}, la.edges...), la.transitiveEdges()...) {
		if adj[e.From] == nil {
			adj[e.From] = map[string]lockEdge{}
		}
		if _, ok := adj[e.From][e.To]; !ok {
			adj[e.From][e.To] = e
		}
	}
	var names []string
	for n := range adj {
		names = append(names, n)
	}
	sort.Strings(names)
	c.note("F7 lock-order edges: %d distinct", func() int {
		n := 0
		for _, t := range adj {
			n += len(t)
		}
		return n
	}())
	for _, from := range names {
		var tos []string
		for to := range adj[from] {
			tos = append(tos, to)
		}
		sort.Strings(tos)
		for _, to := range tos {
			e := adj[from][to]
			key := "edge/" + from + "->" + to
			if from == to {
				c.violate("F7", key, e.At.Pos(), "no re-entrant acquisition of "+from, fmt.Sprintf("%s is acquired in %s while it is already held: self-deadlock", to, funcKey(e.Fn)))
				continue
			}
			// cycle: is `from` reachable from `to`?
			seen := map[string]bool{}
			var path []string
			var dfs func(x string) bool
			dfs = func(x string) bool {
				if x == from {
					return true
				}
				if seen[x] {
					return false
				}
				seen[x] = true
				var nx []string
				for y := range adj[x] {
					nx = append(nx, y)
				}
				sort.Strings(nx)
				for _, y := range nx {
					if dfs(y) {
						path = append(path, x)
						return true
					}
				}
				return false
			}
			cyc := dfs(to)
			c.ok("F7", key, e.At.Pos(), !cyc, fmt.Sprintf("acquiring %s while holding %s (in %s) is not part of a lock-order cycle", to, from, funcKey(e.Fn)),
				fmt.Sprintf("lock-order cycle: %s -> %s -> ... -> %s (via %v): two goroutines taking them in opposite order deadlock", from, to, from, path))
		}
	}
	if len(la.edges) == 0 {
		c.add("F7", "graph", token.NoPos, Discharged, "lock-order graph has no nested acquisitions at all", "")
	}
}

// ruleF8: errors crossing the multiplexer keep their cause chain.
func ruleF8(c *Ctx) {
	m := c.M
	c.rule("F8", "cause chain preserved: every fmt.Errorf in the multiplexer that embeds an error value wraps it with %w, so that ttRPC and isFatalError (errors.Is) still recognise a closed connection or a deadline behind the mux's own message", 1)
	n := 0
	for _, f := range m.funcsInPkg(pkgMux) {
		for _, ci := range calls(f) {
			g := m.callee(ci.Common())
			if g == nil || g.String() != "fmt.Errorf" {
				continue
			}
			format, ok := constString(ci.Common().Args[0])
			if !ok || len(ci.Common().Args) < 2 {
				continue
			}
			elems := (&mergeFn{m: m}).appendedElems(ci.Common().Args[1])
			// map each verb to its operand
			verbs := formatVerbs(format)
			for i, e := range elems {
				v := e
				if mi, ok := v.(*ssa.MakeInterface); ok {
					v = mi.X
				}
				if ci2, ok := v.(*ssa.ChangeInterface); ok {
					v = ci2.X
				}
				if !isErrorType(v.Type()) {
					continue
				}
				n++
				verb := ""
				if i < len(verbs) {
					verb = verbs[i]
				}
				c.ok("F8", fmt.Sprintf("%s/errorf#%d", funcKey(f), n), ci.Pos(), verb == "w", fmt.Sprintf("the error embedded by %s is wrapped with %%w", funcKey(f)),
					fmt.Sprintf("the error is formatted with %%%s: the transport's own error (closed connection, broken pipe, deadline) is no longer in the chain, so the failure is treated as a handler error and vetoes the request instead of dropping the plugin", verb))
			}
		}
	}
}

// formatVerbs lists the verbs of a format string in operand order.
func formatVerbs(f string) []string {
	var out []string
	for i := 0; i < len(f); i++ {
		if f[i] != '%' {
			continue
		}
		i++
		for i < len(f) && strings.ContainsRune("+-# 0123456789.*[]", rune(f[i])) {
			i++
		}
		if i < len(f) && f[i] != '%' {
			out = append(out, string(f[i]))
		}
	}
	return out
}

// sentinelTable: v is slices.ContainsFunc(T, func(t error) bool { return errors.Is(<f's parameter>, t) }) with T a
// package-level slice initialised by a literal of sentinel error variables and never assigned again; returns them.
func sentinelTable(m *Module, f *ssa.Function, v ssa.Value) ([]string, bool) {
	call, ok := v.(*ssa.Call)
	if !ok || len(call.Call.Args) != 2 {
		return nil, false
	}
	g := m.callee(call.Common())
	if g == nil {
		return nil, false
	}
	o := g
	if g.Origin() != nil {
		o = g.Origin()
	}
	if o.Pkg == nil || o.Pkg.Pkg.Path() != "slices" || o.Name() != "ContainsFunc" {
		return nil, false
	}
	ld, ok := call.Call.Args[0].(*ssa.UnOp)
	if !ok {
		return nil, false
	}
	tab, ok := ld.X.(*ssa.Global)
	if !ok || tab.Pkg == nil {
		return nil, false
	}
	// the predicate: errors.Is(captured parameter of f, its own parameter)
	mc, ok := call.Call.Args[1].(*ssa.MakeClosure)
	if !ok {
		return nil, false
	}
	pred := mc.Fn.(*ssa.Function)
	if len(pred.Params) != 1 || len(mc.Bindings) != 1 {
		return nil, false
	}
	// the captured variable is f's parameter (possibly spilled into a cell)
	capOK := false
	switch b := mc.Bindings[0].(type) {
	case *ssa.Parameter:
		capOK = b == f.Params[0]
	case *ssa.Alloc:
		for _, st := range storesTo(b) {
			if st.(*ssa.Store).Val == ssa.Value(f.Params[0]) {
				capOK = true
			}
		}
	}
	if !capOK {
		return nil, false
	}
	for _, r := range returnsOf(pred) {
		c2, ok := r.Results[0].(*ssa.Call)
		if !ok {
			return nil, false
		}
		if h := m.callee(c2.Common()); h == nil || h.String() != "errors.Is" || c2.Call.Args[1] != ssa.Value(pred.Params[0]) {
			return nil, false
		}
		a0 := c2.Call.Args[0]
		if u, ok := a0.(*ssa.UnOp); ok {
			a0 = u.X
		}
		if a0 != ssa.Value(pred.FreeVars[0]) {
			return nil, false
		}
	}
	// the table: written only by the package initialiser, from a literal of loads of error variables
	initF := tab.Pkg.Func("init")
	if initF == nil {
		return nil, false
	}
	for _, fn := range m.funcsInPkg(tab.Pkg.Pkg.Path()) {
		if fn == initF {
			continue
		}
		for _, b := range fn.Blocks {
			for _, in := range b.Instrs {
				if st, ok := in.(*ssa.Store); ok && m.ap(st.Addr).Root == ssa.Value(tab) {
					return nil, false
				}
			}
		}
	}
	var out []string
	for _, b := range initF.Blocks {
		for _, in := range b.Instrs {
			st, ok := in.(*ssa.Store)
			if !ok || st.Addr != ssa.Value(tab) {
				continue
			}
			sl, ok := st.Val.(*ssa.Slice)
			if !ok {
				return nil, false
			}
			arr, ok := sl.X.(*ssa.Alloc)
			if !ok {
				return nil, false
			}
			for _, r := range *arr.Referrers() {
				ia, ok := r.(*ssa.IndexAddr)
				if !ok {
					continue
				}
				for _, rr := range *ia.Referrers() {
					if s2, ok := rr.(*ssa.Store); ok && s2.Addr == ssa.Value(ia) {
						u, ok := s2.Val.(*ssa.UnOp)
						if !ok {
							return nil, false
						}
						gl, ok := u.X.(*ssa.Global)
						if !ok {
							return nil, false
						}
						out = append(out, gl.Pkg.Pkg.Path()+"."+gl.Name())
					}
				}
			}
		}
	}
	return out, len(out) > 0
}
