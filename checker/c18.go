package main

import (
	"fmt"
	"go/ast"
	"go/constant"
	"go/token"
	"go/types"
	"strings"

	"golang.org/x/tools/go/ssa"
)

func init() {
	register("C18", &propInfo{
		run: func(c *Ctx) {
			ruleP1(c)
			ruleP2(c)
			ruleP3(c)
			ruleP4(c)
			ruleP5(c)
			ruleB4(c) // a pre-installed plugin that fails to synchronize is skipped without affecting the others
			ruleP6(c)
			ruleP6b(c)
			ruleO1(c)
		},
		explanation: "Decides the launch structure for pre-installed plugins: an entry of the plugin directory is only added to the discovery result after it was found not to be a directory, to have an execute bit, and to parse as idx-name (the three result lists grow together, from that parse); the child's environment is a fresh list of exactly three NAME=value strings whose names are the constants the stub reads with os.Getenv, carrying the plugin's base name, its index and the descriptor number 3, and the child gets exactly one extra file, the peer end of the socket pair, which is what descriptor 3 is; the socket pair is created close-on-exec on every build variant; the drop-in configuration candidates are idx-name.conf then name.conf, first readable wins and a read error other than not-exist is returned; a plugin that fails to launch, start or synchronize is skipped with continue (and stopped) without affecting the others, and the list is sorted by index; stop kills and reaps the process, and every plugin dropped from the list is stopped. stopPlugins stops every plugin of the list unconditionally. The start-up sync callback never reports a single plugin's error; entries that are not launched anyway are filtered before their names are parsed. The start-up cleanup sees the plugin list as it is at exit.",
		notDecided: []string{
			"what the kernel and os/exec do with descriptors",
			"the process table (that Kill/Wait succeed)",
			"the content of the directory",
		},
	})
}

func ruleP1(c *Ctx) {
	m := c.M
	c.rule("P1", "discovery filter: the appends to the discovery result are dominated by the not-a-directory branch, by the has-an-execute-bit branch and by ParsePluginName succeeding; the three result lists are appended together, index and name from that parse and the configuration from the drop-in lookup for them", 4)
	f := m.method(pkgAdapt, "Adaptation", "discoverPlugins")
	parse := m.fn(pkgAPI, "ParsePluginName")
	var pcall *ssa.Call
	for _, ci := range m.callsTo(f, parse) {
		pcall, _ = ci.(*ssa.Call)
	}
	if pcall == nil {
		c.violate("P1", "parse", f.Pos(), "directory entries are parsed with ParsePluginName", "no call of ParsePluginName")
		return
	}
	// appends: stores/phis of append(...) in the loop; find append calls whose element derives from the parse
	var appends []*ssa.Call
	for _, b := range f.Blocks {
		for _, in := range b.Instrs {
			if call, ok := in.(*ssa.Call); ok {
				if _, ok := isBuiltinCall(call, "append"); ok && inLoop(b) {
					appends = append(appends, call)
				}
			}
		}
	}
	if len(appends) != 3 {
		c.violate("P1", "appends", f.Pos(), "the three result lists grow in the scan loop", fmt.Sprintf("%d appends in the loop", len(appends)))
		return
	}
	blk := appends[0].Block()
	same := true
	for _, a := range appends {
		if a.Block() != blk {
			same = false
		}
	}
	c.ok("P1", "together", appends[0].Pos(), same, "index, name and configuration are appended together", "the three lists are not extended in the same place: they get out of step and a plugin is launched with another plugin's index or configuration")
	// filters
	var isDirOK, execOK bool
	for _, cd := range controls(blk) {
		cd = normCond(cd)
		if call, ok := cd.V.(*ssa.Call); ok && call.Call.IsInvoke() && call.Call.Method.Name() == "IsDir" && !cd.Pol {
			isDirOK = true
		}
		if bo, ok := cd.V.(*ssa.BinOp); ok && (bo.Op == token.EQL || bo.Op == token.NEQ) {
			if z, ok := constInt(bo.Y); ok && z == 0 {
				if an, ok := bo.X.(*ssa.BinOp); ok && an.Op == token.AND {
					if k, ok := constInt(an.Y); ok && k&0o111 != 0 && k&^0o111 == 0 {
						// Mode()&0o111 == 0 must be false, or != 0 true
						if (bo.Op == token.EQL && !cd.Pol) || (bo.Op == token.NEQ && cd.Pol) {
							execOK = true
						}
					}
				}
			}
		}
	}
	c.ok("P1", "not-dir", appends[0].Pos(), isDirOK, "subdirectories are not launched", "the append is not dominated by the !IsDir() branch")
	c.ok("P1", "executable", appends[0].Pos(), execOK, "files without an execute bit are not launched", "the append is not dominated by the has-execute-bit branch (mode & 0o111 != 0)")
	c.ok("P1", "parsed", appends[0].Pos(), guardedBy(pcall, blk), "only names that parse as idx-name are launched", "the append is not dominated by ParsePluginName succeeding")
	// only candidates are parsed: a failing parse ends the whole discovery, so an entry that is skipped anyway
	// (a subdirectory, a file without an execute bit) must be skipped before its name is looked at
	dirFirst, execFirst := false, false
	for _, cd := range controls(pcall.Block()) {
		cd = normCond(cd)
		if call, ok := cd.V.(*ssa.Call); ok && call.Call.IsInvoke() && call.Call.Method.Name() == "IsDir" && !cd.Pol {
			dirFirst = true
		}
		if bo, ok := cd.V.(*ssa.BinOp); ok && (bo.Op == token.EQL || bo.Op == token.NEQ) {
			if z, ok := constInt(bo.Y); ok && z == 0 {
				if an, ok := bo.X.(*ssa.BinOp); ok && an.Op == token.AND {
					if k, ok := constInt(an.Y); ok && k&0o111 != 0 && k&^0o111 == 0 && ((bo.Op == token.EQL && !cd.Pol) || (bo.Op == token.NEQ && cd.Pol)) {
						execFirst = true
					}
				}
			}
		}
	}
	fatalParse := false
	for _, fb := range errFailBlocks(pcall) {
		for _, r := range returnsOf(f) {
			if fb.Dominates(r.Block()) {
				fatalParse = true
			}
		}
	}
	c.ok("P1", "filter-before-parse", pcall.Pos(), !fatalParse || (dirFirst && execFirst), "entries that are not launched anyway are skipped before their names are parsed",
		"ParsePluginName runs (and its failure ends the discovery with an error) before the entry was found to be a candidate: one stray non-executable file or subdirectory whose name is not NN-name keeps every plugin from being launched")
	// provenance of the appended elements
	var fromIdx, fromBase, fromCfg bool
	mf := &mergeFn{m: m}
	for _, a := range appends {
		for _, e := range mf.appendedElems(a.Call.Args[1]) {
			if ex, ok := e.(*ssa.Extract); ok && ex.Tuple == ssa.Value(pcall) {
				if ex.Index == 0 {
					fromIdx = true
				}
				if ex.Index == 1 {
					fromBase = true
				}
			}
			if ex, ok := e.(*ssa.Extract); ok {
				if call, ok := ex.Tuple.(*ssa.Call); ok {
					if g := m.callee(call.Common()); g != nil && g == m.method(pkgAdapt, "Adaptation", "getPluginConfig") && ex.Index == 0 {
						// called with the parse results
						a1, ok1 := call.Call.Args[1].(*ssa.Extract)
						a2, ok2 := call.Call.Args[2].(*ssa.Extract)
						if ok1 && ok2 && a1.Tuple == ssa.Value(pcall) && a1.Index == 0 && a2.Tuple == ssa.Value(pcall) && a2.Index == 1 {
							fromCfg = true
						}
					}
				}
			}
		}
	}
	c.ok("P1", "provenance", appends[0].Pos(), fromIdx && fromBase && fromCfg, "the lists receive the parsed index, the parsed name and the configuration looked up for exactly those", "the appended values are not (parse #0, parse #1, getPluginConfig(parse #0, parse #1))")
}

func apiStringConst(m *Module, name string) string {
	o := m.pkg(pkgAPI).Pkg.Scope().Lookup(name)
	if cst, ok := o.(*types.Const); ok && cst.Val().Kind() == constant.String {
		return constant.StringVal(cst.Val())
	}
	panic(anchorErr{"api constant " + name + " not found"})
}

func ruleP2(c *Ctx) {
	m := c.M
	c.rule("P2", "child environment: the value stored to cmd.Env is a fresh list of exactly three NAME=value strings whose names are the constants the stub reads (os.Getenv of the same constants in New and connect), with the plugin's base name, its index and the descriptor number; cmd.ExtraFiles has exactly one element, the peer end of the socket pair, and the descriptor number is 3 + its position", 6)
	f := m.method(pkgAdapt, "Adaptation", "newLaunchedPlugin")
	plT := m.named(pkgAdapt, "plugin")
	nameK, idxK, sockK := apiStringConst(m, "PluginNameEnvVar"), apiStringConst(m, "PluginIdxEnvVar"), apiStringConst(m, "PluginSocketEnvVar")
	mf := &mergeFn{m: m}
	var envStore, filesStore *ssa.Store
	for _, b := range f.Blocks {
		for _, in := range b.Instrs {
			if st, ok := in.(*ssa.Store); ok {
				if fa, ok := st.Addr.(*ssa.FieldAddr); ok {
					if n := ptrNamed(fa.X.Type()); n != nil && n.Obj().Name() == "Cmd" {
						switch fieldName(fa.X.Type(), fa.Field) {
						case "Env":
							envStore = st
						case "ExtraFiles":
							filesStore = st
						}
					}
				}
			}
		}
	}
	if envStore == nil || filesStore == nil {
		c.violate("P2", "cmd", f.Pos(), "the child's environment and extra files are set explicitly", "cmd.Env or cmd.ExtraFiles is not assigned: the child inherits the runtime's whole environment / gets no socket")
		return
	}
	elems := mf.appendedElems(envStore.Val)
	got := map[string]ssa.Value{}
	var fdNum int64 = -1
	for _, e := range elems {
		if s, ok := constString(e); ok {
			kv := strings.SplitN(s, "=", 2)
			if len(kv) == 2 {
				got[kv[0]] = e
				if kv[0] == sockK {
					fmt.Sscanf(kv[1], "%d", &fdNum)
				}
			}
			continue
		}
		if bo, ok := e.(*ssa.BinOp); ok && bo.Op == token.ADD {
			if s, ok := constString(bo.X); ok && strings.HasSuffix(s, "=") {
				got[strings.TrimSuffix(s, "=")] = bo.Y
			}
		}
	}
	c.ok("P2", "env/three", envStore.Pos(), len(elems) == 3 && len(got) == 3, "the child's environment has exactly three NAME=value entries", fmt.Sprintf("%d entries (%d well-formed): the child inherits or is given something else than its name, index and socket", len(elems), len(got)))
	// values: name <- what is stored in plugin.base, idx <- plugin.idx
	fieldVal := func(fld string) ssa.Value {
		for _, fs := range m.fieldStores(f, plT, fld) {
			if _, fresh := fs.Addr.X.(*ssa.Alloc); fresh && !isNilConst(fs.Store.Val) {
				return fs.Store.Val
			}
		}
		return nil
	}
	c.ok("P2", "env/name", envStore.Pos(), got[nameK] != nil && got[nameK] == fieldVal("base"), nameK+" carries the plugin's base name", "the name variable is missing or does not carry the name the plugin is registered under")
	c.ok("P2", "env/idx", envStore.Pos(), got[idxK] != nil && got[idxK] == fieldVal("idx"), idxK+" carries the plugin's index", "the index variable is missing or does not carry the plugin's index")
	// extra files
	files := mf.appendedElems(filesStore.Val)
	okPeer := false
	if len(files) == 1 {
		for _, src := range valueSources(files[0], filesStore, 0) {
			if call, ok := src.(*ssa.Call); ok {
				if g := m.callee(call.Common()); g != nil && g.Name() == "PeerFile" {
					okPeer = true
				}
			}
		}
	}
	c.ok("P2", "extrafiles", filesStore.Pos(), okPeer, "the child gets exactly one extra file: the peer end of the socket pair", fmt.Sprintf("%d extra files (want the peer file only): the child inherits other descriptors, or not its socket", len(files)))
	c.ok("P2", "env/socket", envStore.Pos(), got[sockK] != nil && fdNum == 3, sockK+" names descriptor 3, the first extra file", fmt.Sprintf("the socket variable names descriptor %d; the peer file is extra file #0 = descriptor 3", fdNum))
	// the stub reads the same constants
	read := map[string]string{}
	for _, fn := range []*ssa.Function{m.fn(pkgStub, "New"), m.method(pkgStub, "stub", "connect")} {
		for _, ci := range calls(fn) {
			if g := m.callee(ci.Common()); g != nil && g.String() == "os.Getenv" {
				if s, ok := constString(ci.Common().Args[0]); ok {
					read[s] = fn.Name()
				}
			}
		}
	}
	okRead := len(read) == 3 && read[nameK] != "" && read[idxK] != "" && read[sockK] != ""
	c.ok("P2", "stub-reads", m.fn(pkgStub, "New").Pos(), okRead, "the stub reads exactly the three variables the runtime sets", fmt.Sprintf("the stub reads %v", read))
	// where they go: name -> stub.name, idx -> stub.idx
	nw := m.fn(pkgStub, "New")
	okFlow := 0
	for _, fl := range m.fieldFlows(nw) {
		if call, ok := fl.Val.(*ssa.Call); ok {
			if g := m.callee(call.Common()); g != nil && g.String() == "os.Getenv" {
				s, _ := constString(call.Call.Args[0])
				if (fl.Path == "name" && s == nameK) || (fl.Path == "idx" && s == idxK) {
					okFlow++
				}
			}
		}
	}
	c.ok("P2", "stub-identity", nw.Pos(), okFlow == 2, "the stub takes its name from the name variable and its index from the index variable", "name and index are not initialised from their own variables (crossed or missing)")
}

func ruleP3(c *Ctx) {
	m := c.M
	c.rule("P3", "CLOEXEC: on every build variant newSocketPairCLOEXEC either passes a socket type containing SOCK_CLOEXEC, or sets close-on-exec on both descriptors while holding syscall.ForkLock", 1)
	f := m.fn(pkgNet, "newSocketPairCLOEXEC")
	okL := false
	for _, ci := range calls(f) {
		if g := m.callee(ci.Common()); g != nil && g.Name() == "Socketpair" {
			if t, ok := constInt(ci.Common().Args[1]); ok {
				cl := m.ByPath["golang.org/x/sys/unix"]
				if cl != nil {
					if o, ok := cl.Types.Scope().Lookup("SOCK_CLOEXEC").(*types.Const); ok {
						if v, ok := constant.Int64Val(o.Val()); ok && t&v == v && v != 0 {
							okL = true
						}
					}
				}
			}
		}
	}
	if !okL {
		okL = cloexecFallbackSSA(m, f)
	}
	c.ok("P3", "linux/amd64", f.Pos(), okL, "the socket pair is close-on-exec on linux/amd64", "neither SOCK_CLOEXEC in the socket type nor CloseOnExec on both ends under ForkLock: every launched plugin inherits the sockets of all other plugins")
	if c.Tier != "thorough" {
		return
	}
	for _, cfg := range [][2]string{{"darwin", "amd64"}, {"freebsd", "amd64"}, {"linux", "arm64"}, {"linux", "386"}} {
		pkgs, _, err := loadTypesOnly(c.Repo, []string{"./pkg/net"}, "GOOS="+cfg[0], "GOARCH="+cfg[1], "CGO_ENABLED=0")
		name := cfg[0] + "/" + cfg[1]
		if err != nil || len(pkgs) == 0 {
			c.note("P3: configuration %s could not be loaded: %v", name, err)
			continue
		}
		c.configs = append(c.configs, name+" (pkg/net, types only)")
		okV := false
		for _, file := range pkgs[0].Syntax {
			for _, d := range file.Decls {
				fd, ok := d.(*ast.FuncDecl)
				if !ok || fd.Name.Name != "newSocketPairCLOEXEC" {
					continue
				}
				hasFlag, nCloexec, forkLock := false, 0, false
				ast.Inspect(fd.Body, func(n ast.Node) bool {
					switch x := n.(type) {
					case *ast.SelectorExpr:
						if x.Sel.Name == "SOCK_CLOEXEC" {
							hasFlag = true
						}
						if x.Sel.Name == "ForkLock" {
							forkLock = true
						}
					case *ast.CallExpr:
						if se, ok := x.Fun.(*ast.SelectorExpr); ok && se.Sel.Name == "CloseOnExec" {
							nCloexec++
						}
					}
					return true
				})
				if hasFlag || (nCloexec >= 2 && forkLock) {
					okV = true
				}
			}
		}
		c.ok("P3", name, token.NoPos, okV, "the socket pair is close-on-exec on "+name, "this build variant creates the pair without SOCK_CLOEXEC and without CloseOnExec on both ends under ForkLock")
	}
}

func cloexecFallbackSSA(m *Module, f *ssa.Function) bool {
	n, fork := 0, false
	for _, ci := range calls(f) {
		if g := m.callee(ci.Common()); g != nil && g.Name() == "CloseOnExec" {
			n++
		}
		for _, a := range ci.Common().Args {
			if gl, ok := a.(*ssa.Global); ok && gl.Name() == "ForkLock" {
				fork = true
			}
		}
	}
	return n >= 2 && fork
}

func ruleP4(c *Ctx) {
	m := c.M
	c.rule("P4", "drop-in order: the candidate list is [dir/idx-base.conf, dir/base.conf] in that order; the first readable file wins; a read error other than not-exist is returned", 3)
	f := m.method(pkgAdapt, "Adaptation", "getPluginConfig")
	id, base := f.Params[1], f.Params[2]
	mf := &mergeFn{m: m}
	var cands []ssa.Value
	for _, b := range f.Blocks {
		for _, in := range b.Instrs {
			if sl, ok := in.(*ssa.Slice); ok {
				if el := mf.appendedElems(sl); len(el) >= 2 {
					allJoin := true
					for _, e := range el {
						call, ok := e.(*ssa.Call)
						if !ok || m.callee(call.Common()) == nil || m.callee(call.Common()).String() != "path/filepath.Join" {
							allJoin = false
						}
					}
					if allJoin {
						cands = el
					}
				}
			}
		}
	}
	bad := ""
	if len(cands) != 2 {
		bad = fmt.Sprintf("%d candidates, want 2", len(cands))
	} else {
		first, second := cands[0], cands[1]
		if !(derivedFrom(first, id) && derivedFrom(first, base)) {
			bad = "the first candidate is not built from index and name"
		}
		if !derivedFrom(second, base) || derivedFrom(second, id) {
			bad = "the second candidate is not built from the name alone"
		}
		for _, cnd := range cands {
			call, ok := cnd.(*ssa.Call)
			okJ := false
			if ok {
				if g := m.callee(call.Common()); g != nil && g.String() == "path/filepath.Join" {
					// first element of the join: the drop-in directory; last: ends in ".conf"
					parts := mf.appendedElems(call.Call.Args[0])
					if len(parts) == 2 && m.ap(parts[0]).PathString() == "dropinPath" {
						if bo, ok := parts[1].(*ssa.BinOp); ok && bo.Op == token.ADD {
							if s, ok := constString(bo.Y); ok && s == ".conf" {
								okJ = true
							}
						}
					}
				}
			}
			if !okJ && bad == "" {
				bad = "a candidate is not <drop-in dir>/<name>.conf"
			}
		}
	}
	c.ok("P4", "candidates", f.Pos(), bad == "", "the drop-in candidates are idx-name.conf, then name.conf, in the drop-in directory", bad+suffixIf(bad != "", ": the plugin receives another plugin's configuration or the less specific one"))
	// first readable wins; other errors returned
	var rd *ssa.Call
	for _, ci := range calls(f) {
		if g := m.callee(ci.Common()); g != nil && g.String() == "os.ReadFile" {
			rd, _ = ci.(*ssa.Call)
		}
	}
	okWin, okErr := false, false
	if rd != nil {
		for _, okb := range errOKBlocks(rd) {
			if r, ok := okb.Instrs[len(okb.Instrs)-1].(*ssa.Return); ok {
				for _, v := range returnValues(r, 1) {
					if isNilConst(v) {
						okWin = true
					}
				}
			}
		}
		for _, b := range f.Blocks {
			for _, cd := range controls(b) {
				cd = normCond(cd)
				if call, ok := cd.V.(*ssa.Call); ok && !cd.Pol {
					if g := m.callee(call.Common()); g != nil && g.String() == "os.IsNotExist" {
						if r, ok := b.Instrs[len(b.Instrs)-1].(*ssa.Return); ok {
							for _, v := range returnValues(r, 1) {
								if !isNilConst(v) {
									okErr = true
								}
							}
						}
					}
				}
			}
		}
	}
	c.ok("P4", "first-wins", f.Pos(), okWin, "the first readable candidate is returned", "a successful read does not return at once: the less specific file overrides the specific one")
	c.ok("P4", "read-error", f.Pos(), okErr, "a read error other than not-exist is reported", "an unreadable drop-in file is silently skipped")
}

func ruleP5(c *Ctx) {
	m := c.M
	c.rule("P5", "isolation of failures: in startPlugins a failure to create or start one plugin continues with the next (no return); a failure to synchronize stops that plugin and continues; only successfully started plugins are kept", 3)
	f := m.method(pkgAdapt, "Adaptation", "startPlugins")
	for _, step := range []struct {
		name string
		fn   *ssa.Function
	}{{"newLaunchedPlugin", m.method(pkgAdapt, "Adaptation", "newLaunchedPlugin")}, {"start", m.method(pkgAdapt, "plugin", "start")}} {
		cs := m.callsTo(f, step.fn)
		bad := ""
		if len(cs) != 1 {
			bad = fmt.Sprintf("%d calls", len(cs))
		} else {
			call := cs[0].(*ssa.Call)
			for _, fb := range errFailBlocks(call) {
				for _, r := range returnsOf(f) {
					if fb.Dominates(r.Block()) {
						bad = "a failure of " + step.name + " makes startPlugins return: one broken plugin prevents all others from starting"
					}
				}
				if !canReach(fb, call.Block()) {
					bad = "after a failure the loop does not continue"
				}
			}
			// the kept list only grows on the success path
			for _, b := range f.Blocks {
				for _, in := range b.Instrs {
					if ap, ok := in.(*ssa.Call); ok {
						if _, isApp := isBuiltinCall(ap, "append"); isApp && inLoop(b) && canReach(call.Block(), b) && b != call.Block() {
							if ap.Type().String() == "[]*"+pkgAdapt+".plugin" && !guardedBy(call, b) {
								bad = "a plugin is kept although " + step.name + " failed"
							}
						}
					}
				}
			}
		}
		pos := f.Pos()
		if len(cs) > 0 {
			pos = cs[0].Pos()
		}
		c.ok("P5", step.name, pos, bad == "", "a failing "+step.name+" skips only that plugin", bad)
	}
	// synchronize failure in the closure: stop + continue
	syn := m.method(pkgAdapt, "plugin", "synchronize")
	stop := m.method(pkgAdapt, "plugin", "stop")
	bad := "no synchronization closure"
	for _, af := range f.AnonFuncs {
		for _, ci := range m.callsTo(af, syn) {
			call := ci.(*ssa.Call)
			bad = ""
			for _, fb := range errFailBlocks(call) {
				stopped := false
				for _, cs := range m.callsTo(af, stop) {
					if fb.Dominates(cs.Block()) && cs.Common().Args[0] == call.Call.Args[0] {
						stopped = true
					}
				}
				if !stopped {
					bad = "a plugin whose synchronization failed is not stopped (its process lingers)"
				}
				for _, r := range returnsOf(af) {
					if fb.Dominates(r.Block()) {
						bad = "a synchronization failure ends the loop over the started plugins"
					}
				}
			}
		}
	}
	c.ok("P5", "synchronize", f.Pos(), bad == "", "a plugin that fails to synchronize is stopped and skipped", bad)
}

func ruleP6(c *Ctx) {
	m := c.M
	c.rule("P6", "reaping: plugin.stop kills the process and then waits for it; stopPlugins stops every plugin of the list and removeClosedPlugins stops every plugin it drops", 3)
	stop := m.method(pkgAdapt, "plugin", "stop")
	var kill, wait ssa.CallInstruction
	for _, ci := range calls(stop) {
		if g := m.callee(ci.Common()); g != nil && recvNamed(g) != nil && recvNamed(g).Obj().Name() == "Process" {
			switch g.Name() {
			case "Kill":
				kill = ci
			case "Wait":
				wait = ci
			}
		}
	}
	c.ok("P6", "stop", stop.Pos(), kill != nil && wait != nil && domInstr(kill, wait), "stop kills the plugin process, then reaps it", "stop does not Kill and then Wait: the plugin keeps running or stays a zombie")
	sp := m.method(pkgAdapt, "Adaptation", "stopPlugins")
	okAll := false
	for _, ci := range m.callsTo(sp, stop) {
		coll, _ := rangeOf(ci.Common().Args[0])
		if coll != nil && m.ap(coll).PathString() == "plugins" && inLoop(ci.Block()) {
			okAll = true
			// for every element: nothing but the loop itself decides whether stop is called
			for _, cd := range controls(ci.Block()) {
				n := normCond(cd)
				if bo, ok := n.V.(*ssa.BinOp); ok && bo.Op == token.LSS {
					continue // i < len(plugins)
				}
				if ex, ok := n.V.(*ssa.Extract); ok {
					if _, isNext := ex.Tuple.(*ssa.Next); isNext {
						continue
					}
				}
				if canReach(ci.Block(), cd.If.Block()) {
					okAll = false // a condition inside the loop: some plugins are skipped
				}
			}
		}
	}
	c.ok("P6", "stopPlugins", sp.Pos(), okAll, "stopPlugins stops every plugin in the list", "stopPlugins does not call stop for every element of r.plugins")
	rm := m.method(pkgAdapt, "Adaptation", "removeClosedPlugins")
	// the stop loop may live in removeClosedPlugins itself, in a closure of it, or in a helper it calls or starts
	var stopsInLoop func(f *ssa.Function, depth int) bool
	stopsInLoop = func(f *ssa.Function, depth int) bool {
		if f == nil || depth > 2 {
			return false
		}
		for _, ci := range m.callsTo(f, stop) {
			if inLoop(ci.Block()) {
				return true
			}
		}
		for _, af := range f.AnonFuncs {
			if stopsInLoop(af, depth+1) {
				return true
			}
		}
		for _, ci := range calls(f) {
			if g := m.callee(ci.Common()); g != nil && g != stop && g.Pkg != nil && g.Pkg.Pkg.Path() == pkgAdapt && len(g.Blocks) > 0 {
				// the helper is handed a list of plugins
				for _, a := range ci.Common().Args {
					if sl, ok := a.Type().Underlying().(*types.Slice); ok {
						if n := ptrNamed(sl.Elem()); n != nil && tname(n.Obj()) == "plugin" && stopsInLoop(g, depth+1) {
							return true
						}
					}
				}
			}
		}
		return false
	}
	okDrop := stopsInLoop(rm, 0)
	// start-up's failure cleanup works on the list as it is at exit: the deferred function reads the variable itself
	// (a captured variable), it is not handed the list's value at the time of the defer statement (nil, then)
	{
		sp2 := m.method(pkgAdapt, "Adaptation", "startPlugins")
		for _, ci := range calls(sp2) {
			df, ok := ci.(*ssa.Defer)
			if !ok {
				continue
			}
			fn := closureFn(df.Call.Value)
			if fn == nil || !stopsInLoop(fn, 0) {
				continue
			}
			byValue := false
			for _, a := range df.Call.Args {
				if sl, ok := a.Type().Underlying().(*types.Slice); ok {
					if n := ptrNamed(sl.Elem()); n != nil && tname(n.Obj()) == "plugin" {
						byValue = true
					}
				}
			}
			c.ok("P6", "startPlugins/cleanup-sees-final-list", df.Pos(), !byValue, "the failure cleanup of start-up stops the plugins that were started by then",
				"the deferred cleanup is passed the plugin list as an argument, which is evaluated when the defer statement runs (before any plugin was started): when start-up fails afterwards, none of the launched plugins is stopped")
		}
	}
	c.ok("P6", "removeClosedPlugins", rm.Pos(), okDrop, "every plugin dropped from the list is stopped", "dropped plugins are not stopped: their processes are never killed")
}

// ruleP6b: a launched plugin that NRI gives up on during start is stopped.
func ruleP6b(c *Ctx) {
	m := c.M
	c.rule("P6b", "dropped at start: in plugin.start the registration-timeout branch and the configuration-failure branch both stop the plugin (kill and reap its process) before returning the error, since a plugin that failed to start is never added to the list that Stop() iterates", 2)
	f := m.method(pkgAdapt, "plugin", "start")
	stop := m.method(pkgAdapt, "plugin", "stop")
	cfg := m.method(pkgAdapt, "plugin", "configure")
	stops := m.callsTo(f, stop)
	// timeout branch
	var sel *ssa.Select
	for _, b := range f.Blocks {
		for _, in := range b.Instrs {
			if s, ok := in.(*ssa.Select); ok && s.Blocking {
				sel = s
			}
		}
	}
	okT := false
	if sel != nil {
		for i, st := range sel.States {
			call, ok := st.Chan.(*ssa.Call)
			if !ok {
				continue
			}
			if g := m.callee(call.Common()); g == nil || g.String() != "time.After" {
				continue
			}
			for _, sc := range stops {
				for _, cd := range controls(sc.Block()) {
					cd = normCond(cd)
					if bo, ok := cd.V.(*ssa.BinOp); ok && bo.Op == token.EQL && cd.Pol {
						if ex, ok := bo.X.(*ssa.Extract); ok && ex.Tuple == ssa.Value(sel) {
							if k, ok := constInt(bo.Y); ok && int(k) == i {
								okT = true
							}
						}
					}
				}
			}
		}
	}
	c.ok("P6b", "start/timeout", f.Pos(), okT, "a launched plugin that does not register in time is stopped", "the registration-timeout branch does not call stop(): the plugin's process keeps running after NRI dropped it, and Stop() never sees it")
	okC := false
	for _, ci := range m.callsTo(f, cfg) {
		call, ok := ci.(*ssa.Call)
		if !ok {
			continue
		}
		ev := errResult(call)
		for _, sc := range stops {
			for _, cd := range controls(sc.Block()) {
				cd = normCond(cd)
				if bo, ok := cd.V.(*ssa.BinOp); ok && isNilConst(bo.Y) && ((bo.Op == token.NEQ && cd.Pol) || (bo.Op == token.EQL && !cd.Pol)) {
					for _, src := range valueSources(bo.X, cd.If, 0) {
						if src == ev {
							okC = true
						}
					}
				}
			}
		}
	}
	c.ok("P6b", "start/configure-failure", f.Pos(), okC, "a launched plugin whose configuration fails is stopped", "the configure-failure branch does not call stop(): the process lingers")
}
