package main

// LENREL: a small prover for `a <= len(s)` over SSA ints and slices (DESIGN.md
// 2.2): facts from definitions (len, min, constants), from branch conditions
// that dominate the use, transitivity, and induction over loop-head phis.

import (
	"fmt"
	"go/constant"
	"go/token"
	"go/types"

	"golang.org/x/tools/go/ssa"
)

type goal struct {
	a ssa.Value // int value
	s ssa.Value // slice value
}

type point struct {
	b    *ssa.BasicBlock // facts valid at entry of... we use: all conditions on dominator chain of b
	edge *ssa.BasicBlock // if non-nil: additionally the edge b -> edge
}

type prover struct {
	inprog map[goal]bool
	trace  []string
}

func isLenOf(v ssa.Value, s ssa.Value) bool {
	c, ok := v.(*ssa.Call)
	if !ok {
		return false
	}
	b, ok := c.Call.Value.(*ssa.Builtin)
	if !ok || b.Name() != "len" {
		return false
	}
	return sameLen(c.Call.Args[0], s)
}

// sameLen: x and s are the same value or x = slice s[:] / s = slice x[:]
func sameLen(x, s ssa.Value) bool {
	if x == s {
		return true
	}
	if sl, ok := x.(*ssa.Slice); ok && sl.Low == nil && sl.High == nil && sl.X == s {
		return true
	}
	if sl, ok := s.(*ssa.Slice); ok && sl.Low == nil && sl.High == nil && sl.X == x {
		return true
	}
	return false
}

type fact struct {
	cond ssa.Value
	val  bool
}

func factsAt(p point) []fact {
	var fs []fact
	for cur := p.b; cur != nil; cur = cur.Idom() {
		d := cur.Idom()
		if d == nil {
			break
		}
		if iff, ok := d.Instrs[len(d.Instrs)-1].(*ssa.If); ok {
			t, f := d.Succs[0], d.Succs[1]
			if t != f {
				if t.Dominates(p.b) && len(t.Preds) == 1 {
					fs = append(fs, fact{iff.Cond, true})
				} else if f.Dominates(p.b) && len(f.Preds) == 1 {
					fs = append(fs, fact{iff.Cond, false})
				}
			}
		}
	}
	if p.edge != nil {
		if iff, ok := p.b.Instrs[len(p.b.Instrs)-1].(*ssa.If); ok && p.b.Succs[0] != p.b.Succs[1] {
			if p.b.Succs[0] == p.edge {
				fs = append(fs, fact{iff.Cond, true})
			} else if p.b.Succs[1] == p.edge {
				fs = append(fs, fact{iff.Cond, false})
			}
		}
	}
	return fs
}

// normalise a comparison fact into (x REL y) with REL in {<=, <}
type rel struct {
	x, y   ssa.Value
	strict bool
}

func rels(fs []fact) []rel {
	var out []rel
	for _, f := range fs {
		b, ok := f.cond.(*ssa.BinOp)
		if !ok {
			continue
		}
		op := b.Op
		if !f.val {
			switch op {
			case token.GTR:
				op = token.LEQ
			case token.GEQ:
				op = token.LSS
			case token.LSS:
				op = token.GEQ
			case token.LEQ:
				op = token.GTR
			default:
				continue
			}
		}
		switch op {
		case token.LEQ:
			out = append(out, rel{b.X, b.Y, false})
		case token.LSS:
			out = append(out, rel{b.X, b.Y, true})
		case token.GEQ:
			out = append(out, rel{b.Y, b.X, false})
		case token.GTR:
			out = append(out, rel{b.Y, b.X, true})
		}
	}
	return out
}

func sameVal(x, y ssa.Value) bool {
	if x == y {
		return true
	}
	cx, ok1 := x.(*ssa.Const)
	cy, ok2 := y.(*ssa.Const)
	if ok1 && ok2 && cx.Value != nil && cy.Value != nil {
		return constant.Compare(cx.Value, token.EQL, cy.Value)
	}
	// two len() calls of same slice
	if c, ok := x.(*ssa.Call); ok {
		if b, ok := c.Call.Value.(*ssa.Builtin); ok && b.Name() == "len" {
			return isLenOf(y, c.Call.Args[0])
		}
	}
	return false
}

func (pr *prover) prove(g goal, p point, depth int) bool {
	if depth > 12 {
		return false
	}
	ind := fmt.Sprintf("%*s", depth*2, "")
	// 0. const zero
	if c, ok := g.a.(*ssa.Const); ok && c.Value != nil && constant.Sign(c.Value) == 0 {
		return true
	}
	// 1. a == len(s)
	if isLenOf(g.a, g.s) {
		pr.trace = append(pr.trace, ind+g.a.Name()+" = len("+g.s.Name()+")")
		return true
	}
	// 2. branch facts
	rs := rels(factsAt(p))
	for _, r := range rs {
		if sameVal(r.x, g.a) && isLenOf(r.y, g.s) {
			pr.trace = append(pr.trace, ind+"branch fact "+r.x.Name()+" <= len("+g.s.Name()+")")
			return true
		}
	}
	// 2b. a positive constant: a branch fact k < len(s) with c <= k+1, or k <= len(s) with c <= k
	if c, ok := g.a.(*ssa.Const); ok && c.Value != nil && c.Value.Kind() == constant.Int {
		cv := c.Int64()
		for _, r := range rs {
			k, isC := r.x.(*ssa.Const)
			if !isC || k.Value == nil || k.Value.Kind() != constant.Int || !isLenOf(r.y, g.s) {
				continue
			}
			kv := k.Int64()
			if (r.strict && cv <= kv+1) || (!r.strict && cv <= kv) {
				pr.trace = append(pr.trace, fmt.Sprintf("%sbranch fact %d %s len(%s)", ind, kv, map[bool]string{true: "<", false: "<="}[r.strict], g.s.Name()))
				return true
			}
		}
	}
	// 4. transitivity through facts a <= b / a < b
	for _, r := range rs {
		if sameVal(r.x, g.a) && r.y != g.a {
			if _, isC := r.y.(*ssa.Const); isC {
				continue
			}
			pr.trace = append(pr.trace, ind+"transitivity via "+r.x.Name()+" <= "+r.y.Name())
			if pr.prove(goal{r.y, g.s}, p, depth+1) {
				return true
			}
		}
	}
	// 5. min builtin (before induction: a min over a bound that holds needs no induction)
	if c, ok := g.a.(*ssa.Call); ok {
		if b, ok := c.Call.Value.(*ssa.Builtin); ok && b.Name() == "min" {
			for _, arg := range c.Call.Args {
				if pr.prove(goal{arg, g.s}, p, depth+1) {
					return true
				}
			}
		}
	}
	// 3. phi induction
	aphi, aIsPhi := g.a.(*ssa.Phi)
	sphi, sIsPhi := g.s.(*ssa.Phi)
	if aIsPhi || sIsPhi {
		var blk *ssa.BasicBlock
		switch {
		case aIsPhi && sIsPhi && aphi.Block() == sphi.Block():
			blk = aphi.Block()
		case aIsPhi && (!sIsPhi || sphi.Block().Dominates(aphi.Block())):
			blk = aphi.Block()
			sIsPhi = false
		case sIsPhi:
			blk = sphi.Block()
			aIsPhi = false
		}
		if pr.inprog[g] {
			pr.trace = append(pr.trace, ind+"(induction hypothesis) "+g.a.Name()+" <= len("+g.s.Name()+")")
			return true
		}
		pr.inprog[g] = true
		ok := true
		for i, pred := range blk.Preds {
			ai, si := g.a, g.s
			if aIsPhi && aphi.Block() == blk {
				ai = aphi.Edges[i]
			}
			if sIsPhi && sphi.Block() == blk {
				si = sphi.Edges[i]
			}
			pr.trace = append(pr.trace, fmt.Sprintf("%sedge %d->%d: need %s <= len(%s)", ind, pred.Index, blk.Index, ai.Name(), si.Name()))
			if !pr.prove(goal{ai, si}, point{pred, blk}, depth+1) {
				pr.trace = append(pr.trace, fmt.Sprintf("%sFAILED on edge %d->%d: %s <= len(%s)", ind, pred.Index, blk.Index, ai.Name(), si.Name()))
				ok = false
				break
			}
		}
		delete(pr.inprog, g)
		if ok {
			return true
		}
	}
	return false
}

// sliceBound is one bound of one slice expression.
type sliceBound struct {
	Slice *ssa.Slice
	Which string // "lo" or "hi"
	V     ssa.Value
	OK    bool
	Trace []string
}

// proveSliceBounds tries to prove every non-constant bound of every slice
// expression on a slice or string operand in fn.
func proveSliceBounds(fn *ssa.Function) []sliceBound {
	var out []sliceBound
	for _, b := range fn.Blocks {
		for _, in := range b.Instrs {
			sl, ok := in.(*ssa.Slice)
			if !ok {
				continue
			}
			switch sl.X.Type().Underlying().(type) {
			case *types.Slice, *types.Basic:
			default:
				continue // pointer to array: bounds are checked against a constant length
			}
			for _, bd := range []struct {
				n string
				v ssa.Value
			}{{"lo", sl.Low}, {"hi", sl.High}} {
				if bd.v == nil {
					continue
				}
				if _, isConst := bd.v.(*ssa.Const); isConst {
					if c := bd.v.(*ssa.Const); c.Value != nil && constant.Sign(c.Value) == 0 {
						continue
					}
				}
				pr := &prover{inprog: map[goal]bool{}}
				ok := pr.prove(goal{bd.v, sl.X}, point{b, nil}, 0)
				out = append(out, sliceBound{sl, bd.n, bd.v, ok, pr.trace})
			}
		}
	}
	return out
}
