package main

// Analysis of the response-merging code in pkg/adaptation/result.go, shared by
// C01..C05: claims, writes into the reply accumulator / request view / staged
// copy, provenance of written values and removal-marker polarity.

import (
	"go/token"
	"go/types"
	"sort"
	"strings"

	"golang.org/x/tools/go/ssa"
)

const (
	pkgAdapt = modPath + "/pkg/adaptation"
	pkgAPI   = modPath + "/pkg/api"
	pkgStub  = modPath + "/pkg/stub"
	pkgMux   = modPath + "/pkg/net/multiplex"
	pkgNet   = modPath + "/pkg/net"
	pkgGen   = modPath + "/pkg/runtime-tools/generate"
)

// Tag is a provenance tag of a value.
type Tag uint

const (
	tPlugin Tag = 1 << iota // derived from the plugin's response (non-receiver parameter)
	tAcc                    // derived from the accumulated reply / request view / update accumulator
	tOwn                    // derived from the ownership ledger
	tStaged                 // result of Copy() on accumulated state
	tFresh                  // freshly allocated
	tConst                  // constant, plugin name
	tMarker                 // result of MarkForRemoval
	tOther                  // anything else (opaque)
)

func (t Tag) String() string {
	var s []string
	for i, n := range []string{"PLUGIN", "ACC", "OWN", "STAGED", "FRESH", "CONST", "MARKER", "OTHER"} {
		if t&(1<<uint(i)) != 0 {
			s = append(s, n)
		}
	}
	return strings.Join(s, "|")
}

// mergeFn is the analysis state for one merge function.
type mergeFn struct {
	m      *Module
	fn     *ssa.Function
	recv   *ssa.Parameter
	plugin map[*ssa.Parameter]bool // parameters holding the plugin's response
	acc    map[*ssa.Parameter]bool // parameters holding accumulated state (updateResources' reply)
	memo   map[ssa.Value]Tag
	inprog map[ssa.Value]bool
	claims []*claimCall
	clears []*claimCall
	writes []*mwrite
}

type claimCall struct {
	call   *ssa.Call
	callee *ssa.Function // the function called: a wrapper of resultOwners or the ledger method itself
	ledger *ssa.Function // the method of *owners that does the work
	id     ssa.Value
	key    ssa.Value // nil for unkeyed items
}

// mwrite is one write into accumulated state.
type mwrite struct {
	instr   ssa.Instruction
	kind    string // "store", "mapupdate", "delete"
	target  AP     // access path of the location written (map for mapupdate/delete)
	space   string // "reply", "view", "staged", "updacc", "updates", "owners", "other"
	item    string
	val     ssa.Value // stored value (store), value (mapupdate)
	key     ssa.Value // map key
	vtag    Tag       // provenance of value ∪ key
	elems   []ssa.Value
	isAppnd bool
	appBase ssa.Value // first operand of append
}

func (w *mwrite) block() *ssa.BasicBlock { return w.instr.Block() }

// mergeFamily discovers the merge functions: methods of *result returning error.
func mergeFamily(m *Module) []*ssa.Function {
	var out []*ssa.Function
	for _, f := range m.methodsOf(pkgAdapt, "result") {
		r := f.Signature.Results()
		if r.Len() >= 1 && isErrorType(r.At(r.Len()-1).Type()) {
			out = append(out, f)
		}
	}
	return out
}

// claimFamily: methods of resultOwners that return error; clearFamily: methods
// of resultOwners without results (other than the ledger accessor).
func claimFamily(m *Module) (claims, clears []*ssa.Function, accessor *ssa.Function) {
	for _, f := range m.methodsOf(pkgAdapt, "resultOwners") {
		r := f.Signature.Results()
		switch {
		case r.Len() == 1 && isErrorType(r.At(0).Type()):
			claims = append(claims, f)
		case r.Len() == 0:
			clears = append(clears, f)
		case r.Len() == 1:
			if p, ok := r.At(0).Type().(*types.Pointer); ok {
				if n, ok := p.Elem().(*types.Named); ok && tname(n.Obj()) == "owners" {
					accessor = f
				}
			}
		}
	}
	return
}

// ledgerFamily: the claim (returning error) and clear (no result) methods of the per-container ledger *owners.
func ledgerFamily(m *Module) (claims, clears []*ssa.Function) {
	for _, f := range m.methodsOf(pkgAdapt, "owners") {
		r := f.Signature.Results()
		switch {
		case r.Len() == 1 && isErrorType(r.At(0).Type()):
			claims = append(claims, f)
		case r.Len() == 0:
			clears = append(clears, f)
		}
	}
	return
}

// ledgerOf resolves a claim/clear function to the ledger method that does the work: the method of
// *owners itself, or the one such method a wrapper of resultOwners calls.
func ledgerOf(m *Module, f *ssa.Function) *ssa.Function {
	if rn := recvNamed(f); rn != nil && tname(rn.Obj()) == "owners" {
		return f
	}
	var found *ssa.Function
	for _, ci := range calls(f) {
		g := m.callee(ci.Common())
		if rn := recvNamed(g); rn != nil && tname(rn.Obj()) == "owners" {
			if found != nil && found != g {
				return nil
			}
			found = g
		}
	}
	return found
}

// name of the claim/clear: the ledger method's.
func (cc *claimCall) name() string { return cc.ledger.Name() }

func newMergeFn(m *Module, fn *ssa.Function) *mergeFn {
	mf := &mergeFn{m: m, fn: fn, plugin: map[*ssa.Parameter]bool{}, acc: map[*ssa.Parameter]bool{},
		memo: map[ssa.Value]Tag{}, inprog: map[ssa.Value]bool{}}
	if len(fn.Params) == 0 {
		return mf
	}
	mf.recv = fn.Params[0]
	// Parameters: the receiver is accumulated state.  A pointer parameter of the
	// same type as another one that is *returned by getContainerUpdate* is the
	// accumulator (updateResources(reply, u)): it is recognised as the parameter
	// that the function stores through (it is written), while plugin parameters
	// are only read.
	written := map[*ssa.Parameter]bool{}
	for _, b := range fn.Blocks {
		for _, in := range b.Instrs {
			if st, ok := in.(*ssa.Store); ok {
				if p, ok := m.ap(st.Addr).Root.(*ssa.Parameter); ok {
					written[p] = true
				}
			}
		}
	}
	for _, p := range fn.Params[1:] {
		if written[p] {
			mf.acc[p] = true
		} else {
			mf.plugin[p] = true
		}
	}
	claims, clears, accessor := claimFamily(m)
	lclaims, lclears := ledgerFamily(m)
	isIn := func(f *ssa.Function, set []*ssa.Function) bool {
		for _, g := range set {
			if g == f {
				return true
			}
		}
		return false
	}
	for _, ci := range calls(fn) {
		call, ok := ci.(*ssa.Call)
		if !ok {
			continue
		}
		cal := m.callee(call.Common())
		if cal == nil {
			continue
		}
		args := call.Call.Args // receiver first
		switch {
		case isIn(cal, claims) || isIn(cal, clears):
			// through a wrapper: (ro, id[, key][, plugin])
			cc := &claimCall{call: call, callee: cal, ledger: ledgerOf(m, cal)}
			if cc.ledger == nil {
				cc.ledger = cal
			}
			if len(args) >= 2 {
				cc.id = args[1]
			}
			if isIn(cal, claims) && len(args) == 4 {
				cc.key = args[2]
			}
			if isIn(cal, clears) && len(args) == 3 {
				cc.key = args[2]
			}
			if isIn(cal, claims) {
				mf.claims = append(mf.claims, cc)
			} else {
				mf.clears = append(mf.clears, cc)
			}
		case isIn(cal, lclaims) || isIn(cal, lclears):
			// directly on the per-container ledger: ownersFor(id).claimX([key,] plugin)
			acc, ok := args[0].(*ssa.Call)
			if !ok || accessor == nil || m.callee(acc.Common()) != accessor || len(acc.Call.Args) != 2 {
				continue
			}
			cc := &claimCall{call: call, callee: cal, ledger: cal, id: acc.Call.Args[1]}
			if isIn(cal, lclaims) && len(args) == 3 {
				cc.key = args[1]
			}
			if isIn(cal, lclears) && len(args) == 2 {
				cc.key = args[1]
			}
			if isIn(cal, lclaims) {
				mf.claims = append(mf.claims, cc)
			} else {
				mf.clears = append(mf.clears, cc)
			}
		}
	}
	mf.collectWrites()
	return mf
}

// isMarkedTest recognises calls that decide removal-marking: api.IsMarkedForRemoval
// itself, or a method whose body returns the results of such a call on one of
// the receiver's fields.  Returns the subject (the key string or the element).
func (mf *mergeFn) isMarkedTest(c *ssa.Call) (subject ssa.Value, ok bool) {
	return isMarkedTestCall(mf.m, c)
}

func isMarkedTestCall(m *Module, c *ssa.Call) (subject ssa.Value, ok bool) {
	f := m.callee(c.Common())
	if f == nil || len(c.Call.Args) != 1 {
		return nil, false
	}
	if isMarkedFn(m, f, 0) {
		return c.Call.Args[0], true
	}
	return nil, false
}

func isMarkedFn(m *Module, f *ssa.Function, depth int) bool {
	base := m.fnOpt(pkgAPI, "IsMarkedForRemoval")
	if base == nil {
		panic(anchorErr{"api.IsMarkedForRemoval not found"})
	}
	if f == base {
		return true
	}
	if depth > 1 || f.Blocks == nil || f.Pkg == nil || f.Pkg.Pkg.Path() != pkgAPI {
		return false
	}
	r := f.Signature.Results()
	if r.Len() != 2 {
		return false
	}
	// wrapper: every return returns the two results of one call to a marked function
	rets := returnsOf(f)
	if len(rets) == 0 {
		return false
	}
	for _, ret := range rets {
		e0, ok0 := ret.Results[0].(*ssa.Extract)
		e1, ok1 := ret.Results[1].(*ssa.Extract)
		if !ok0 || !ok1 || e0.Tuple != e1.Tuple || e0.Index != 0 || e1.Index != 1 {
			return false
		}
		call, ok := e0.Tuple.(*ssa.Call)
		if !ok {
			return false
		}
		g := m.callee(call.Common())
		if g == nil || !isMarkedFn(m, g, depth+1) {
			return false
		}
	}
	return true
}

// markedKeyField returns the receiver field a marked-test method passes to
// IsMarkedForRemoval (e.g. Mount.Destination), "" for the base function.
func markedKeyField(m *Module, f *ssa.Function) string {
	if f.Signature.Recv() == nil {
		return ""
	}
	for _, ci := range calls(f) {
		if c, ok := ci.(*ssa.Call); ok && len(c.Call.Args) == 1 {
			a := m.ap(c.Call.Args[0])
			if a.Root == ssa.Value(f.Params[0]) && len(a.Path) == 1 {
				return a.Path[0]
			}
		}
	}
	return ""
}

// prov computes the provenance tags of v.
func (mf *mergeFn) prov(v ssa.Value) Tag {
	if v == nil {
		return 0
	}
	if t, ok := mf.memo[v]; ok {
		return t
	}
	if mf.inprog[v] {
		return 0
	}
	mf.inprog[v] = true
	t := mf.prov1(v)
	delete(mf.inprog, v)
	mf.memo[v] = t
	return t
}

func (mf *mergeFn) prov1(v ssa.Value) Tag {
	m := mf.m
	switch x := v.(type) {
	case *ssa.Parameter:
		switch {
		case x == mf.recv:
			return tAcc
		case mf.acc[x]:
			return tAcc
		case mf.plugin[x]:
			if b, ok := x.Type().Underlying().(*types.Basic); ok && b.Kind() == types.String && x.Name() == "plugin" {
				return tConst
			}
			return tPlugin
		}
		return tOther
	case *ssa.Const:
		return tConst
	case *ssa.Global:
		return tConst
	case *ssa.Function:
		return tConst
	case *ssa.FreeVar:
		return tOther
	case *ssa.FieldAddr:
		t := mf.prov(x.X)
		if x.X == ssa.Value(mf.recv) && fieldName(x.X.Type(), x.Field) == "owners" {
			return tOwn
		}
		return t
	case *ssa.Field:
		return mf.prov(x.X)
	case *ssa.IndexAddr:
		return mf.prov(x.X)
	case *ssa.Index:
		return mf.prov(x.X)
	case *ssa.Lookup:
		return mf.prov(x.X)
	case *ssa.UnOp:
		if x.Op == token.MUL {
			if al, ok := x.X.(*ssa.Alloc); ok {
				return mf.allocContent(al)
			}
		}
		return mf.prov(x.X)
	case *ssa.BinOp:
		return mf.prov(x.X) | mf.prov(x.Y)
	case *ssa.Phi:
		var t Tag
		for _, e := range x.Edges {
			t |= mf.prov(e)
		}
		return t
	case *ssa.Extract:
		switch tu := x.Tuple.(type) {
		case *ssa.Next:
			if r, ok := tu.Iter.(*ssa.Range); ok {
				return mf.prov(r.X)
			}
		case *ssa.Call:
			if subj, ok := mf.isMarkedTest(tu); ok {
				return mf.prov(subj)
			}
			return mf.prov(tu)
		case *ssa.Lookup:
			return mf.prov(tu.X)
		case *ssa.TypeAssert:
			return mf.prov(tu.X)
		}
		return tOther
	case *ssa.Slice:
		return mf.prov(x.X)
	case *ssa.Convert:
		return mf.prov(x.X)
	case *ssa.ChangeType:
		return mf.prov(x.X)
	case *ssa.MakeInterface:
		return mf.prov(x.X)
	case *ssa.TypeAssert:
		return mf.prov(x.X)
	case *ssa.Alloc:
		return tFresh | mf.allocContent(x)
	case *ssa.MakeMap:
		t := tFresh
		for _, r := range *x.Referrers() {
			if mu, ok := r.(*ssa.MapUpdate); ok && mu.Map == ssa.Value(x) {
				t |= mf.prov(mu.Key) | mf.prov(mu.Value)
			}
		}
		return t
	case *ssa.MakeSlice:
		return tFresh
	case *ssa.Call:
		if b, ok := x.Call.Value.(*ssa.Builtin); ok {
			switch b.Name() {
			case "append":
				var t Tag
				for _, a := range x.Call.Args {
					t |= mf.prov(a)
				}
				return t
			case "len", "cap":
				return mf.prov(x.Call.Args[0])
			}
			return tOther
		}
		f := m.callee(x.Common())
		if f == nil {
			return tOther
		}
		if f == m.fnOpt(pkgAPI, "MarkForRemoval") {
			return tMarker | mf.prov(x.Call.Args[0])
		}
		if _, ok := m.getterField(f); ok {
			return mf.prov(x.Call.Args[0])
		}
		if f.Name() == "Copy" && recvNamed(f) != nil && recvNamed(f).Obj().Name() == "LinuxResources" {
			if mf.prov(x.Call.Args[0])&(tAcc|tStaged) != 0 {
				return tStaged
			}
			return mf.prov(x.Call.Args[0])
		}
		if _, ok := m.pureWrapper(f); ok {
			return mf.prov(x.Call.Args[0])
		}
		// repo-internal helper or library call: union of argument provenance
		var t Tag
		for _, a := range x.Call.Args {
			t |= mf.prov(a)
		}
		if t == 0 {
			t = tOther
		}
		return t
	}
	return tOther
}

// allocContent: provenance of everything stored into (fields / elements of) a local allocation.
func (mf *mergeFn) allocContent(al *ssa.Alloc) Tag {
	var t Tag
	var visit func(addr ssa.Value, depth int)
	visit = func(addr ssa.Value, depth int) {
		if depth > 3 || addr.Referrers() == nil {
			return
		}
		for _, r := range *addr.Referrers() {
			switch y := r.(type) {
			case *ssa.Store:
				if y.Addr == addr {
					t |= mf.prov(y.Val)
				}
			case *ssa.FieldAddr:
				if y.X == addr {
					visit(y, depth+1)
				}
			case *ssa.IndexAddr:
				if y.X == addr {
					visit(y, depth+1)
				}
			}
		}
	}
	visit(al, 0)
	return t
}

// spaceOf classifies the location an access path denotes.
func (mf *mergeFn) spaceOf(a AP) (space string, item string) {
	p := a.Path
	strip := func(p []string, upto string) ([]string, bool) {
		for i, s := range p {
			if s == upto {
				return p[i+1:], true
			}
		}
		return nil, false
	}
	resItem := func(p []string) string {
		if len(p) >= 2 && p[0] == "Linux" && p[1] == "Resources" {
			p = p[2:]
		}
		return itemOf(p)
	}
	switch r := a.Root.(type) {
	case *ssa.Parameter:
		if r == mf.recv {
			if len(p) == 0 {
				return "other", ""
			}
			switch p[0] {
			case "reply":
				if rest, ok := strip(p, "adjust"); ok {
					return "reply", resItem(rest)
				}
				if len(p) >= 2 && p[1] == "update" {
					return "replyupd", itemOf(p[2:])
				}
			case "request":
				if rest, ok := strip(p, "Container"); ok && len(p) >= 2 && p[1] == "create" {
					return "view", resItem(rest)
				}
				if rest, ok := strip(p, "LinuxResources"); ok && len(p) >= 2 && p[1] == "update" {
					return "view", itemOf(rest)
				}
				return "request", itemOf(p[1:])
			case "updates":
				return "updates", itemOf(p[1:])
			case "owners":
				return "owners", ""
			}
			return "other", ""
		}
		if mf.acc[r] {
			return "updacc", resItem(p)
		}
		return "param", itemOf(p)
	}
	if mf.prov(a.Root)&tStaged != 0 {
		return "staged", itemOf(p)
	}
	if mf.prov(a.Root)&tAcc != 0 {
		// e.g. a local alias of accumulated state that went through a phi
		return "acc?", itemOf(p)
	}
	return "local", itemOf(p)
}

// itemOf normalises a field path into an item name: collection-element and
// map steps are dropped (the item is the collection), as is everything below
// an optional wrapper.
func itemOf(p []string) string {
	var out []string
	for _, s := range p {
		if s == "[]" || s == "{}" || s == "{key}" {
			break
		}
		out = append(out, s)
	}
	// items are at most two levels: Memory.X, Cpu.X, Hooks.X, Linux.X
	if len(out) > 2 {
		out = out[:2]
	}
	if len(out) == 2 && !(out[0] == "Memory" || out[0] == "Cpu" || out[0] == "Hooks" || out[0] == "Linux") {
		out = out[:1]
	}
	return strings.Join(out, ".")
}

func (mf *mergeFn) collectWrites() {
	m := mf.m
	for _, b := range mf.fn.Blocks {
		for _, in := range b.Instrs {
			switch x := in.(type) {
			case *ssa.Store:
				if _, isAlloc := x.Addr.(*ssa.Alloc); isAlloc {
					continue
				}
				a := m.ap(x.Addr)
				if al, ok := a.Root.(*ssa.Alloc); ok {
					_ = al
					continue // building a fresh local object
				}
				sp, item := mf.spaceOf(a)
				if sp == "local" || sp == "param" {
					continue
				}
				w := &mwrite{instr: x, kind: "store", target: a, space: sp, item: item, val: x.Val}
				w.vtag = mf.prov(x.Val)
				if ap, ok := isBuiltinCall(x.Val, "append"); ok {
					w.isAppnd = true
					w.appBase = ap.Call.Args[0]
					if len(ap.Call.Args) > 1 {
						w.elems = mf.appendedElems(ap.Call.Args[1])
						w.vtag = mf.prov(ap.Call.Args[1])
						if ba := m.ap(w.appBase); ba.Root != a.Root || ba.PathString() != a.PathString() {
							w.vtag |= mf.prov(w.appBase)
						}
					}
				}
				mf.writes = append(mf.writes, w)
			case *ssa.MapUpdate:
				a := m.ap(x.Map)
				sp, item := mf.spaceOf(a)
				if sp == "local" || sp == "param" {
					if sp == "param" {
						// deleting / updating the plugin's own map is not a write to accumulated state
					}
					continue
				}
				w := &mwrite{instr: x, kind: "mapupdate", target: a, space: sp, item: item, val: x.Value, key: x.Key}
				w.vtag = mf.prov(x.Value) | mf.prov(x.Key)
				mf.writes = append(mf.writes, w)
			case *ssa.Call:
				if b, ok := x.Call.Value.(*ssa.Builtin); ok && b.Name() == "delete" {
					a := m.ap(x.Call.Args[0])
					sp, item := mf.spaceOf(a)
					if sp == "local" || sp == "param" {
						continue
					}
					w := &mwrite{instr: x, kind: "delete", target: a, space: sp, item: item, key: x.Call.Args[1]}
					w.vtag = mf.prov(x.Call.Args[1])
					mf.writes = append(mf.writes, w)
				}
			}
		}
	}
}

// appendedElems returns the element values of the second operand of append
// when it is a slice literal ([e] or [e1,e2]); nil for `xs...`.
func (mf *mergeFn) appendedElems(arg ssa.Value) []ssa.Value {
	sl, ok := arg.(*ssa.Slice)
	if !ok {
		return nil
	}
	al, ok := sl.X.(*ssa.Alloc)
	if !ok {
		return nil
	}
	type ent struct {
		idx int64
		v   ssa.Value
	}
	var ents []ent
	for _, r := range *al.Referrers() {
		if ia, ok := r.(*ssa.IndexAddr); ok {
			k, _ := constInt(ia.Index)
			for _, rr := range *ia.Referrers() {
				if st, ok := rr.(*ssa.Store); ok && st.Addr == ssa.Value(ia) {
					ents = append(ents, ent{k, st.Val})
				}
			}
		}
	}
	sort.SliceStable(ents, func(i, j int) bool { return ents[i].idx < ents[j].idx })
	var out []ssa.Value
	for _, e := range ents {
		out = append(out, e.v)
	}
	return out
}

// markedPol determines, for value e used at block b, whether b only executes
// when e is marked for removal (+1), only when it is not (-1), or neither (0).
// e may be the element, its key, or the stripped key returned by the test.
func (mf *mergeFn) markedPol(e ssa.Value, b *ssa.BasicBlock) int {
	m := mf.m
	for _, c := range controls(b) {
		c = normCond(c)
		ex, ok := c.V.(*ssa.Extract)
		if !ok || ex.Index != 1 {
			continue
		}
		call, ok := ex.Tuple.(*ssa.Call)
		if !ok {
			continue
		}
		subj, ok := mf.isMarkedTest(call)
		if !ok {
			continue
		}
		if mf.sameSubject(subj, e, call) {
			if c.Pol {
				return 1
			}
			return -1
		}
		_ = m
	}
	return 0
}

// sameSubject: is e the element tested by the marked-test (subject), its key
// field, or the stripped key the test returned?
func (mf *mergeFn) sameSubject(subj, e ssa.Value, test *ssa.Call) bool {
	m := mf.m
	if subj == e {
		return true
	}
	// stripped key: Extract #0 of the same test call
	if ex, ok := e.(*ssa.Extract); ok && ex.Tuple == ssa.Value(test) && ex.Index == 0 {
		return true
	}
	as, ae := m.ap(subj), m.ap(e)
	if as.Root == ae.Root && as.Root != nil {
		ps, pe := as.PathString(), ae.PathString()
		if ps == pe {
			// same path: same element only if both are the same loop element
			return sameIter(subj, e)
		}
		// key field of the element
		if strings.HasPrefix(ps, pe+".") || strings.HasPrefix(pe, ps+".") {
			return sameIter(subj, e)
		}
	}
	return false
}

// sameIter: two values derived from collection elements refer to the same
// iteration's element (same IndexAddr / Next instruction underneath).
func sameIter(a, b ssa.Value) bool {
	ia, ib := iterSource(a), iterSource(b)
	return ia != nil && ia == ib
}

func iterSource(v ssa.Value) ssa.Value {
	for i := 0; i < 20 && v != nil; i++ {
		switch x := v.(type) {
		case *ssa.IndexAddr:
			return x
		case *ssa.Next:
			return x
		case *ssa.Extract:
			v = x.Tuple
		case *ssa.UnOp:
			v = x.X
		case *ssa.FieldAddr:
			v = x.X
		case *ssa.Field:
			v = x.X
		case *ssa.Call:
			if len(x.Call.Args) == 0 {
				return nil
			}
			v = x.Call.Args[0]
		case *ssa.Parameter:
			return x
		default:
			return nil
		}
	}
	return nil
}

// insertion describes one insertion into a local collection.
type insertion struct {
	site  ssa.Instruction
	elem  ssa.Value // inserted element (slice) or value (map)
	key   ssa.Value // map key
	whole ssa.Value // appended slice operand when not a literal (xs...)
}

// insertions finds the insertion sites of the local collection that v
// denotes: a MakeMap's MapUpdates, or the appends on a phi/append cycle.
func (mf *mergeFn) insertions(v ssa.Value) (ins []insertion, local bool) {
	seen := map[ssa.Value]bool{}
	local = true
	var walk func(x ssa.Value)
	walk = func(x ssa.Value) {
		if x == nil || seen[x] {
			return
		}
		seen[x] = true
		switch y := x.(type) {
		case *ssa.MakeMap:
			for _, r := range *y.Referrers() {
				if mu, ok := r.(*ssa.MapUpdate); ok && mu.Map == x {
					ins = append(ins, insertion{site: mu, elem: mu.Value, key: mu.Key})
				}
			}
		case *ssa.Phi:
			for _, e := range y.Edges {
				walk(e)
			}
		case *ssa.Call:
			if ap, ok := isBuiltinCall(y, "append"); ok {
				walk(ap.Call.Args[0])
				if len(ap.Call.Args) > 1 {
					el := mf.appendedElems(ap.Call.Args[1])
					if el == nil {
						ins = append(ins, insertion{site: y, whole: ap.Call.Args[1]})
					}
					for _, e := range el {
						ins = append(ins, insertion{site: y, elem: e})
					}
				}
				return
			}
			local = false
		case *ssa.Slice:
			if _, ok := y.X.(*ssa.Alloc); ok {
				return // empty / literal slice
			}
			walk(y.X)
		case *ssa.MakeSlice, *ssa.Const:
		case *ssa.UnOp:
			// load of a local variable that holds the collection
			if al, ok := y.X.(*ssa.Alloc); ok && y.Op == token.MUL {
				for _, r := range *al.Referrers() {
					if st, ok := r.(*ssa.Store); ok && st.Addr == ssa.Value(al) {
						walk(st.Val)
					}
				}
				return
			}
			local = false
		default:
			local = false
		}
	}
	walk(v)
	return
}

// partition classifies a local collection: +1 all insertions under marked⁺,
// -1 all under marked⁻, 0 mixed/unknown; ok=false when v is not a local collection.
func (mf *mergeFn) partition(v ssa.Value) (pol int, ok bool) {
	ins, local := mf.insertions(v)
	if !local || len(ins) == 0 {
		return 0, false
	}
	pol = 2
	for _, i := range ins {
		var p int
		if i.whole != nil {
			q, ok2 := mf.partition(i.whole)
			if !ok2 {
				return 0, true
			}
			p = q
		} else {
			p = mf.markedPol(i.elem, i.site.Block())
			if p == 0 && i.key != nil {
				p = mf.markedPol(i.key, i.site.Block())
			}
		}
		if pol == 2 {
			pol = p
		} else if pol != p {
			return 0, true
		}
	}
	if pol == 2 {
		pol = 0
	}
	return pol, true
}

// rangeOf: if v is the element / key of a range loop, return the ranged collection.
func rangeOf(v ssa.Value) (coll ssa.Value, isKey bool) {
	for i := 0; i < 12 && v != nil; i++ {
		switch x := v.(type) {
		case *ssa.Extract:
			if nx, ok := x.Tuple.(*ssa.Next); ok {
				if r, ok := nx.Iter.(*ssa.Range); ok {
					return r.X, x.Index == 1
				}
				return nil, false
			}
			v = x.Tuple
		case *ssa.UnOp:
			v = x.X
		case *ssa.IndexAddr:
			return x.X, false
		case *ssa.Index:
			return x.X, false
		case *ssa.Lookup:
			// m[k]: a value of the map (an element of the collection the map holds)
			if _, isMap := x.X.Type().Underlying().(*types.Map); isMap {
				return x.X, false
			}
			return nil, false
		case *ssa.FieldAddr:
			v = x.X
		case *ssa.Field:
			v = x.X
		case *ssa.Call:
			if len(x.Call.Args) == 0 {
				return nil, false
			}
			v = x.Call.Args[0]
		default:
			return nil, false
		}
	}
	return nil, false
}

// elemMarked: polarity of an element value written at block b: direct
// control by a marked test, or membership in a marked/unmarked partition.
func (mf *mergeFn) elemMarked(e ssa.Value, b *ssa.BasicBlock) int {
	if p := mf.markedPol(e, b); p != 0 {
		return p
	}
	if coll, _ := rangeOf(e); coll != nil {
		if p, ok := mf.partition(coll); ok {
			return p
		}
	}
	return 0
}

// claimGuards lists the claim calls whose success edge dominates block b.
func (mf *mergeFn) claimGuards(b *ssa.BasicBlock) []*claimCall {
	var out []*claimCall
	for _, c := range mf.claims {
		if guardedBy(c.call, b) {
			out = append(out, c)
		}
	}
	return out
}

// claimAllLoop finds a loop ranging over collection coll (same SSA collection)
// whose body performs a claim on every iteration, whose failure returns, and
// whose exit dominates block b.
func (mf *mergeFn) claimAllLoop(coll ssa.Value, b *ssa.BasicBlock) *claimCall {
	collIns, _ := mf.insertions(coll)
	sameColl := func(x ssa.Value) bool {
		if x == coll {
			return true
		}
		xi, _ := mf.insertions(x)
		if len(xi) == 0 || len(xi) != len(collIns) {
			return false
		}
		for i := range xi {
			if xi[i].site != collIns[i].site {
				return false
			}
		}
		return true
	}
	for _, c := range mf.claims {
		if c.key == nil {
			continue
		}
		rc, _ := rangeOf(c.key)
		if rc == nil || !sameColl(rc) {
			continue
		}
		cb := c.call.Block()
		if !inLoop(cb) {
			continue
		}
		// failure returns: the non-nil branch of the claim's error test ends in a return
		fails := errFailBlocks(c.call)
		if len(fails) == 0 {
			continue
		}
		okRet := true
		for _, fb := range fails {
			if !isExit(fb) {
				okRet = false
			}
		}
		if !okRet {
			continue
		}
		// the claim is executed on every iteration: its block dominates every
		// in-loop predecessor of the loop header (latch)
		hdr := loopHeader(cb)
		if hdr == nil {
			continue
		}
		every := true
		for _, p := range hdr.Preds {
			if canReach(hdr, p) || p == hdr { // latch
				if !cb.Dominates(p) {
					every = false
				}
			}
		}
		if !every {
			continue
		}
		// the loop's only exits are the header's exit and the failing return;
		// the header exit dominates b, and b is outside the loop
		if canReach(b, cb) {
			continue
		}
		if !hdr.Dominates(b) {
			continue
		}
		// no break: every edge leaving the loop starts at the header or at a failing block
		brk := false
		loopBlocks := loopBody(hdr)
		for lb := range loopBlocks {
			for _, s := range lb.Succs {
				if !loopBlocks[s] && lb != hdr {
					isFail := false
					for _, fb := range fails {
						if s == fb || lb == fb {
							isFail = true
						}
					}
					if !isFail {
						brk = true
					}
				}
			}
		}
		if brk {
			continue
		}
		return c
	}
	return nil
}

// loopHeader finds the header of the innermost loop containing b: the nearest
// dominator of b (or b) that has a predecessor reachable from itself and that
// is on a cycle with b.
func loopHeader(b *ssa.BasicBlock) *ssa.BasicBlock {
	for h := b; h != nil; h = h.Idom() {
		for _, p := range h.Preds {
			if h.Dominates(p) && (p == b || canReach(b, p) || b == h) && (h == b || canReach(h, b)) {
				return h
			}
		}
	}
	return nil
}

// loopBody: blocks of the natural loop(s) with header h.
func loopBody(h *ssa.BasicBlock) map[*ssa.BasicBlock]bool {
	body := map[*ssa.BasicBlock]bool{h: true}
	var stack []*ssa.BasicBlock
	for _, p := range h.Preds {
		if h.Dominates(p) {
			stack = append(stack, p)
		}
	}
	for len(stack) > 0 {
		x := stack[len(stack)-1]
		stack = stack[:len(stack)-1]
		if body[x] {
			continue
		}
		body[x] = true
		for _, p := range x.Preds {
			stack = append(stack, p)
		}
	}
	return body
}

func sortWrites(ws []*mwrite) {
	sort.SliceStable(ws, func(i, j int) bool { return ws[i].instr.Pos() < ws[j].instr.Pos() })
}
