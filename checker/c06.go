package main

import (
	"fmt"
	"go/constant"
	"go/token"
	"go/types"
	"strings"

	"golang.org/x/tools/go/ssa"
)

func init() {
	register("C06", &propInfo{
		run: func(c *Ctx) {
			ruleT1(c)
			ruleT2(c)
			ruleT3(c)
			ruleT4(c)
			ruleO1(c)
			ruleO2(c)
			ruleL1(c)
			ruleL2(c)
			ruleA3(c)
			ruleF1(c) // every plugin gets its own full request timeout
			ruleF4(c) // the adaptation lock is released on every path of a request, vetoed or not
			ruleF3(c) // a plugin failing fatally during an event is dropped, it does not veto the event for later plugins
		},
		explanation: "Decides the table and ordering structure behind event delivery: the event constants are 1..13 (UNKNOWN 0, LAST 14), ValidEvents is exactly their bit-or, the printer's name table is total and Set/Clear/IsSet use one bit expression; every relay calls the RPC named like the event it tests in the plugin's subscription mask and returns the zero reply without calling when the bit is clear; every exported event entry point stamps the event named like itself and forwards it; the implementation dispatcher forwards every RPC to the same-named method with the same request; the active plugin list is only written as a filter of itself, nil, or followed by the sort before the lock is released, the comparator orders by the idx field with '<', and idx only ever holds a value that passed the two-digit check; every request method calls its relay exactly once per iteration of one loop over that list and stops at the first error; the list and the relays are only touched under the adaptation lock and the per-request result never escapes. A plugin failing fatally during an event is closed and its relay returns nil (also when the fatal branch falls through to a shared return), so it does not veto the event for the plugins after it. The context a request method hands to a relay is the request's own (no deadline shared by or chained across the plugins). The adaptation lock is released on every path of a request.",
		notDecided: []string{
			"that ttRPC delivers what was sent",
			"fairness of sync.Mutex (one common order follows from serialisation under one lock; the mutex itself is trusted)",
			"stability of the sort for equal indices",
		},
	})
}

// methodNameOfEvent: Event constant name -> RPC/handler name via the printer's table.
func eventMethodNames(m *Module) map[string]string {
	names := eventNames(m)
	out := map[string]string{}
	for en, v := range eventConsts(m) {
		if n, ok := names[v]; ok {
			out[en] = n
		}
	}
	return out
}

func ruleT1(c *Ctx) {
	m := c.M
	c.rule("T1", "event tables: the Event constants are exactly 1..13 plus UNKNOWN=0 and LAST=14; ValidEvents equals the bit-or of 1<<(e-1) over exactly those 13; the printer's name table is total on them; Set, Clear and IsSet use the same bit expression 1<<(e-1)", 17)
	evs := eventConsts(m)
	var maxV int64
	seen := map[int64]string{}
	for n, v := range evs {
		if v > maxV {
			maxV = v
		}
		if o, dup := seen[v]; dup {
			c.violate("T1", "const/"+n, token.NoPos, "event constants are distinct", fmt.Sprintf("%s and %s share value %d", n, o, v))
		}
		seen[v] = n
	}
	c.ok("T1", "const/range", token.NoPos, evs["Event_UNKNOWN"] == 0 && seen[maxV] == "Event_LAST" && int(maxV) == len(evs)-1,
		"event constants are contiguous from UNKNOWN=0 to LAST", fmt.Sprintf("constants: %v", evs))
	var want int64
	names := eventNames(m)
	for _, n := range sortedKeysI(evs) {
		v := evs[n]
		if n == "Event_UNKNOWN" || n == "Event_LAST" {
			continue
		}
		want |= 1 << uint(v-1)
		_, okN := names[v]
		c.ok("T1", "name/"+n, token.NoPos, okN, n+" has a name in the printer's table (the repository's event-to-method table)", "no name for this event: relays and the stub cannot be matched to it")
	}
	vo := m.pkg(pkgAPI).Pkg.Scope().Lookup("ValidEvents")
	vc, _ := vo.(*types.Const)
	var got int64 = -1
	if vc != nil {
		got, _ = constant.Int64Val(vc.Val())
	}
	c.ok("T1", "ValidEvents", vo.Pos(), got == want, "ValidEvents is the bit-or of the 13 defined events", fmt.Sprintf("ValidEvents=0x%x, expected 0x%x: a defined event is rejected or an undefined bit accepted", got, want))
	// bit expression agreement
	var exprs []ssa.Value
	var ev []ssa.Value
	for _, mn := range []string{"Set", "Clear", "IsSet"} {
		f := m.method(pkgAPI, "EventMask", mn)
		var shl *ssa.BinOp
		findShl := func(g *ssa.Function) *ssa.BinOp {
			var out *ssa.BinOp
			for _, b := range g.Blocks {
				for _, in := range b.Instrs {
					if bo, ok := in.(*ssa.BinOp); ok && bo.Op == token.SHL {
						out = bo
					}
				}
			}
			return out
		}
		shl = findShl(f)
		if shl == nil {
			// the bit expression in a shared helper of the package: bit(e) = 1 << (e-1)
			for _, ci := range calls(f) {
				if g := m.callee(ci.Common()); g != nil && g.Pkg != nil && g.Pkg.Pkg.Path() == pkgAPI && len(g.Params) == 1 && len(g.Blocks) == 1 && len(ci.Common().Args) == 1 {
					if s2 := findShl(g); s2 != nil {
						if ret, ok := g.Blocks[0].Instrs[len(g.Blocks[0].Instrs)-1].(*ssa.Return); ok && len(ret.Results) == 1 && ret.Results[0] == ssa.Value(s2) {
							shl = s2
						}
					}
				}
			}
		}
		okE := false
		if shl != nil {
			if one, ok := constInt(shl.X); ok && one == 1 {
				y := shl.Y
				for {
					if cv, ok := y.(*ssa.Convert); ok {
						y = cv.X
						continue
					}
					break
				}
				if sub, ok := y.(*ssa.BinOp); ok && sub.Op == token.SUB {
					if k, ok := constInt(sub.Y); ok && k == 1 {
						okE = true
						exprs = append(exprs, shl)
						ev = append(ev, sub.X)
					}
				}
			}
		}
		c.ok("T1", "bit/"+mn, f.Pos(), okE, "EventMask."+mn+" addresses event e as bit 1<<(e-1)", "the bit expression is not 1<<(e-1): the accessors disagree on which bit an event is")
	}
	// operator check
	set, clr, isset := m.method(pkgAPI, "EventMask", "Set"), m.method(pkgAPI, "EventMask", "Clear"), m.method(pkgAPI, "EventMask", "IsSet")
	hasOp := func(f *ssa.Function, op token.Token) bool {
		for _, b := range f.Blocks {
			for _, in := range b.Instrs {
				if bo, ok := in.(*ssa.BinOp); ok && bo.Op == op {
					return true
				}
			}
		}
		return false
	}
	c.ok("T1", "op/Set", set.Pos(), hasOp(set, token.OR), "Set ors the bit in", "Set does not use |")
	c.ok("T1", "op/Clear", clr.Pos(), hasOp(clr, token.AND_NOT), "Clear masks the bit out", "Clear does not use &^")
	c.ok("T1", "op/IsSet", isset.Pos(), hasOp(isset, token.AND) && hasOp(isset, token.NEQ), "IsSet tests the bit", "IsSet does not test mask&bit != 0")
}

// rpcCallIn finds the call of a pluginType method in relay f.
func rpcCallIn(m *Module, f *ssa.Function) (ssa.CallInstruction, *ssa.Function) {
	for _, ci := range calls(f) {
		if g := m.callee(ci.Common()); g != nil {
			if rn := recvNamed(g); rn != nil && tname(rn.Obj()) == "pluginType" && g.Signature.Results().Len() > 0 && !strings.HasPrefix(g.Name(), "is") {
				return ci, g
			}
		}
	}
	return nil, nil
}

func ruleT2(c *Ctx) {
	m := c.M
	c.rule("T2", "relay guards: in each relay the RPC call is dominated by the true-branch of events.IsSet(E) on the plugin's own mask with E the event named like the RPC (for StateChange: the Event field of the very event forwarded); the unsubscribed branch returns the zero reply and nil error without reaching the call", 5)
	names := eventMethodNames(m)
	evConst := eventConsts(m)
	isSet := m.method(pkgAPI, "EventMask", "IsSet")
	preds := map[string]*ssa.Function{}
	defer func() {
		// sibling agreement: all relays decide subscription with the same predicate
		var first *ssa.Function
		same := true
		for _, n := range sortedKeys(preds) {
			if first == nil {
				first = preds[n]
			} else if preds[n] != first {
				same = false
			}
		}
		c.ok("T2", "same-predicate", token.NoPos, same && len(preds) >= 5, "all relays decide subscription with the same predicate",
			"relays use different subscription tests (some a wrapper, some the raw mask): a mask convention honoured by one (e.g. empty = everything) is ignored by another, so that event is never delivered to such plugins")
	}()
	for _, f := range requestRelays(m) {
		rpc, g := rpcCallIn(m, f)
		what := fmt.Sprintf("relay %s calls %s only if the plugin subscribed to that event", f.Name(), g.Name())
		bad := ""
		var test *ssa.Call
		pred := isSet
		for _, ci := range m.callsTo(f, isSet) {
			test, _ = ci.(*ssa.Call)
		}
		if test == nil {
			// a wrapper predicate on the plugin: a *plugin method taking the event whose body consults events.IsSet with it
			for _, ci := range calls(f) {
				g := m.callee(ci.Common())
				if g == nil || recvNamed(g) == nil || tname(recvNamed(g).Obj()) != "plugin" || len(g.Params) != 2 {
					continue
				}
				for _, cj := range m.callsTo(g, isSet) {
					if a := m.ap(cj.Common().Args[0]); a.Root == ssa.Value(g.Params[0]) && a.PathString() == "events" && cj.Common().Args[1] == ssa.Value(g.Params[1]) {
						if call, ok := ci.(*ssa.Call); ok {
							test, pred = call, g
						}
					}
				}
			}
		}
		preds[f.Name()] = pred
		if test == nil {
			c.violate("T2", f.Name(), f.Pos(), what, "the relay does not consult the subscription mask: unsubscribed plugins are invoked")
			continue
		}
		// receiver: &p.events of the relay's own receiver (or the relay's receiver itself for a wrapper predicate)
		ra := m.ap(test.Call.Args[0])
		if pred == isSet {
			if ra.Root != ssa.Value(f.Params[0]) || ra.PathString() != "events" {
				bad = "the mask consulted is not the receiver plugin's own"
			}
		} else if test.Call.Args[0] != ssa.Value(f.Params[0]) {
			bad = "the subscription predicate is not asked of the receiver plugin"
		}
		// event argument
		arg := test.Call.Args[1]
		if cv, ok := constInt(arg); ok {
			en := ""
			for n, v := range evConst {
				if v == cv {
					en = n
				}
			}
			if names[en] != g.Name() {
				bad = fmt.Sprintf("the relay tests %s (%q) but calls %s: plugins are invoked for an event they did not subscribe to, and not for the one they did", en, names[en], g.Name())
			}
		} else {
			// StateChange: the event field of the forwarded event
			ea := m.ap(arg)
			fwd := rpc.Common().Args[len(rpc.Common().Args)-1]
			if ea.Root != fwd || ea.PathString() != "Event" {
				bad = "the event tested is not the Event field of the event that is forwarded"
			}
		}
		// domination by the true branch
		okDom := false
		for _, r := range *test.Referrers() {
			var cond ssa.Value = test
			pol := true
			if u, ok := r.(*ssa.UnOp); ok && u.Op == token.NOT {
				cond, pol = u, false
				_ = cond
				for _, rr := range *u.Referrers() {
					if iff, ok := rr.(*ssa.If); ok {
						succ := iff.Block().Succs[1] // !IsSet false => IsSet true
						if succ.Dominates(rpc.Block()) && len(succ.Preds) == 1 {
							okDom = true
						}
						if !zeroReturn(iff.Block().Succs[0]) {
							bad = "the unsubscribed branch does not return the zero reply and nil"
						}
					}
				}
			}
			if iff, ok := r.(*ssa.If); ok && pol {
				succ := iff.Block().Succs[0]
				if succ.Dominates(rpc.Block()) && len(succ.Preds) == 1 {
					okDom = true
				}
				if !zeroReturn(iff.Block().Succs[1]) {
					bad = "the unsubscribed branch does not return the zero reply and nil"
				}
			}
		}
		if !okDom && bad == "" {
			bad = "the RPC call is not dominated by the subscribed branch of the mask test"
		}
		c.ok("T2", f.Name(), test.Pos(), bad == "", what, bad)
	}
}

// zeroReturn: block returns only nil/zero constants.
func zeroReturn(b *ssa.BasicBlock) bool {
	for i := 0; i < 3; i++ {
		if r, ok := b.Instrs[len(b.Instrs)-1].(*ssa.Return); ok {
			for i := range r.Results {
				for _, v := range returnValues(r, i) {
					if _, isC := v.(*ssa.Const); !isC {
						return false
					}
					if !isNilConst(v) && !isZeroConst(v) {
						return false
					}
				}
			}
			return true
		}
		if len(b.Succs) != 1 {
			return false
		}
		b = b.Succs[0]
	}
	return false
}

func ruleT3(c *Ctx) {
	m := c.M
	c.rule("T3", "entry points: each exported Adaptation method that stamps evt.Event stores the constant of the event named like the method, and then forwards that same event to StateChange", 9)
	names := eventMethodNames(m)
	evConst := eventConsts(m)
	sc := m.method(pkgAdapt, "Adaptation", "StateChange")
	for _, f := range m.methodsOf(pkgAdapt, "Adaptation") {
		for _, b := range f.Blocks {
			for _, in := range b.Instrs {
				st, ok := in.(*ssa.Store)
				if !ok {
					continue
				}
				fa, ok := st.Addr.(*ssa.FieldAddr)
				if !ok || fieldName(fa.X.Type(), fa.Field) != "Event" {
					continue
				}
				if n := ptrNamed(fa.X.Type()); n == nil || n.Obj().Name() != "StateChangeEvent" {
					continue
				}
				cv, isC := constInt(st.Val)
				en := ""
				for n, v := range evConst {
					if isC && v == cv {
						en = n
					}
				}
				fwd := false
				for _, ci := range m.callsTo(f, sc) {
					if ci.Common().Args[2] == fa.X && domInstr(st, ci) {
						// the call's result is what the method returns
						fwd = true
					}
				}
				bad := ""
				if names[en] != f.Name() {
					bad = fmt.Sprintf("%s stamps %s (%q): plugins subscribed to %s are not notified, plugins subscribed to %q get a wrong event", f.Name(), en, names[en], f.Name(), names[en])
				} else if !fwd {
					bad = "the stamped event is not forwarded to StateChange"
				}
				c.ok("T3", f.Name(), st.Pos(), bad == "", fmt.Sprintf("%s stamps and forwards the event named like itself", f.Name()), bad)
			}
		}
	}
}

func ruleT4(c *Ctx) {
	m := c.M
	c.rule("T4", "implementation dispatch: each pluginType RPC method forwards to the same-named method of the WASM or the ttRPC implementation with the same context and request, and returns its result", 7)
	for _, f := range m.methodsOf(pkgAdapt, "pluginType") {
		if f.Signature.Results().Len() == 0 || strings.HasPrefix(f.Name(), "is") {
			continue
		}
		n := 0
		bad := ""
		impls := map[string]bool{}
		for _, ci := range calls(f) {
			cc := ci.Common()
			if !cc.IsInvoke() {
				continue
			}
			n++
			ra := m.ap(cc.Value)
			if sel, ok := cc.Value.(*ssa.Call); ok {
				// the implementation picked by a selector method of the receiver: what that method can return
				if g := m.callee(sel.Common()); g != nil && recvNamed(g) == recvNamed(f) && len(sel.Call.Args) == 1 && sel.Call.Args[0] == ssa.Value(f.Params[0]) {
					okSel := true
					for _, r := range returnsOf(g) {
						for _, v := range returnValues(r, 0) {
							for {
								if mi, ok := v.(*ssa.MakeInterface); ok {
									v = mi.X
									continue
								}
								if ci2, ok := v.(*ssa.ChangeInterface); ok {
									v = ci2.X
									continue
								}
								break
							}
							ga := m.ap(v)
							if ga.Root != ssa.Value(g.Params[0]) || len(ga.Path) != 1 {
								okSel = false
								continue
							}
							impls[ga.Path[0]] = true
						}
					}
					if !okSel {
						bad = "call is not on one of the receiver's implementations"
					}
					goto checkArgs
				}
			}
			if ra.Root != ssa.Value(f.Params[0]) || len(ra.Path) != 1 {
				bad = "call is not on one of the receiver's implementations"
				continue
			}
			impls[ra.Path[0]] = true
		checkArgs:
			if cc.Method.Name() != f.Name() {
				bad = fmt.Sprintf("forwards to %s instead of %s: the plugin receives another request type", cc.Method.Name(), f.Name())
			}
			if len(cc.Args) != len(f.Params)-1 {
				bad = "argument count differs"
			} else {
				for i, a := range cc.Args {
					if a != ssa.Value(f.Params[i+1]) {
						bad = fmt.Sprintf("argument %d is not the method's own parameter", i)
					}
				}
			}
		}
		if n == 0 {
			continue
		}
		if len(impls) != 2 && bad == "" {
			bad = fmt.Sprintf("forwards to %d implementations, want both the WASM and the ttRPC one", len(impls))
		}
		c.ok("T4", f.Name(), f.Pos(), bad == "", "pluginType."+f.Name()+" forwards faithfully to both implementations", bad)
	}
}

func ruleO1(c *Ctx) {
	m := c.M
	c.rule("O1", "order: the active plugin list is written only as a filter of itself in iteration order, as nil, or by an assignment that is followed on every path, before the adaptation lock is released, by sortPlugins; the comparator orders by the idx field with '<' on (i, j); plugin.idx only ever holds a value that passed CheckPluginIndex", 8)
	la := adaptationLocks(c)
	adT := m.named(pkgAdapt, "Adaptation")
	plT := m.named(pkgAdapt, "plugin")
	sortP := m.method(pkgAdapt, "Adaptation", "sortPlugins")
	mfDummy := func(f *ssa.Function) *mergeFn { return newMergeFn(m, f) }
	for _, f := range m.funcsInPkg(pkgAdapt) {
		for _, fs := range m.fieldStores(f, adT, "plugins") {
			key := "writer/" + funcKey(f)
			what := fmt.Sprintf("%s leaves the plugin list sorted by index", funcKey(f))
			if isNilConst(fs.Store.Val) {
				c.add("O1", key, fs.Store.Pos(), Discharged, what+" (nil)", "")
				continue
			}
			// filter of itself
			mf := mfDummy(f)
			if ins, local := mf.insertions(fs.Store.Val); local && len(ins) > 0 {
				allOld := true
				for _, i := range ins {
					if i.elem == nil {
						allOld = false
						continue
					}
					coll, _ := rangeOf(i.elem)
					a := m.ap(coll)
					if coll == nil || a.PathString() != "plugins" || ptrNamed(a.Root.Type()) == nil || ptrNamed(a.Root.Type()).Obj() != adT.Obj() {
						allOld = false
					}
				}
				if allOld {
					c.add("O1", key, fs.Store.Pos(), Discharged, what+" (filter of the sorted list, order kept)", "")
					continue
				}
			}
			// followed by sortPlugins before the lock is released
			okS := false
			for _, ci := range m.callsTo(f, sortP) {
				if !domInstr(fs.Store, ci) {
					continue
				}
				if !(ci.Block() == fs.Store.Block() || m.postDominates(ci.Block(), fs.Store.Block())) {
					continue
				}
				released := false
				for _, cj := range calls(f) {
					if op := la.lockOpOf(cj.Common()); op != nil && !op.Acquire && op.ID.Name == "Adaptation.Mutex" {
						if _, isDefer := cj.(*ssa.Defer); isDefer {
							continue
						}
						if reachesUnkilled(fs.Store, cj, []ssa.Instruction{ci}) {
							released = true
						}
					}
				}
				if !released {
					okS = true
				}
			}
			c.ok("O1", key, fs.Store.Pos(), okS, what, "the list is assigned without being sorted afterwards under the same lock: a later-registered plugin with a lower index is invoked after higher ones")
		}
	}
	// comparator
	okCmp := false
	var cmpPos token.Pos = sortP.Pos()
	for _, ci := range calls(sortP) {
		g := m.callee(ci.Common())
		if g == nil || !(g.String() == "sort.Slice" || g.String() == "sort.SliceStable") {
			continue
		}
		a := m.ap(ci.Common().Args[0])
		if a.PathString() != "plugins" {
			continue
		}
		less := closureFn(ci.Common().Args[1])
		if less == nil {
			continue
		}
		cmpPos = less.Pos()
		for _, b := range less.Blocks {
			for _, in := range b.Instrs {
				bo, ok := in.(*ssa.BinOp)
				if !ok || bo.Op != token.LSS {
					continue
				}
				ax, ay := m.ap(bo.X), m.ap(bo.Y)
				if strings.HasSuffix(ax.PathString(), "plugins.[].idx") && strings.HasSuffix(ay.PathString(), "plugins.[].idx") &&
					indexOf(bo.X) == ssa.Value(less.Params[0]) && indexOf(bo.Y) == ssa.Value(less.Params[1]) {
					for _, r := range returnsOf(less) {
						if r.Results[0] == ssa.Value(bo) {
							okCmp = true
						}
					}
				}
			}
		}
	}
	c.ok("O1", "comparator", cmpPos, okCmp, "sortPlugins sorts the plugin list with less(i,j) = plugins[i].idx < plugins[j].idx",
		"the comparator does not compare the idx fields of elements i and j with '<': plugins are not invoked in ascending index order")
	// sortPlugins prunes closed plugins first (keeps list = filter) — not required; idx writers:
	check := m.fn(pkgAPI, "CheckPluginIndex")
	for _, f := range m.funcsInPkg(pkgAdapt) {
		for _, fs := range m.fieldStores(f, plT, "idx") {
			key := "idx/" + funcKey(f)
			what := fmt.Sprintf("%s stores only a validated index into plugin.idx", funcKey(f))
			if _, isParam := fs.Store.Val.(*ssa.Parameter); isParam {
				// launched plugins: the parameter comes from discovery (validated by ParsePluginName, see below and C18.P1)
				c.add("O1", key, fs.Store.Pos(), Discharged, what+" (parameter from discovery)", "")
				continue
			}
			okG := false
			for _, ci := range m.callsTo(f, check) {
				call := ci.(*ssa.Call)
				if m.valEq(call.Call.Args[0], fs.Store.Val) && guardedBy(call, fs.Store.Block()) {
					okG = true
				}
			}
			c.ok("O1", key, fs.Store.Pos(), okG, what, "the index stored was not checked by CheckPluginIndex on this path: string order is no longer numeric order")
		}
	}
	parse := m.fn(pkgAPI, "ParsePluginName")
	okP := true
	detail := ""
	for _, r := range returnsOf(parse) {
		nilErr := false
		for _, v := range returnValues(r, 2) {
			if isNilConst(v) {
				nilErr = true
			}
		}
		if !nilErr {
			continue
		}
		g := false
		for _, ci := range m.callsTo(parse, check) {
			call := ci.(*ssa.Call)
			if guardedBy(call, r.Block()) && m.valEq(call.Call.Args[0], r.Results[0]) {
				g = true
			}
		}
		if !g {
			okP = false
			detail = "a successful return yields an index that was not checked by CheckPluginIndex"
		}
	}
	c.ok("O1", "idx/ParsePluginName", parse.Pos(), okP, "ParsePluginName returns only indices that passed CheckPluginIndex", detail)
}

// indexOf: the index operand of the element access underlying v.
func indexOf(v ssa.Value) ssa.Value {
	for i := 0; i < 8 && v != nil; i++ {
		switch x := v.(type) {
		case *ssa.IndexAddr:
			return x.Index
		case *ssa.Index:
			return x.Index
		case *ssa.UnOp:
			v = x.X
		case *ssa.FieldAddr:
			v = x.X
		case *ssa.Field:
			v = x.X
		default:
			return nil
		}
	}
	return nil
}

// ruleA3: mask validation in configure (C06, C17).
func ruleA3(c *Ctx) {
	m := c.M
	c.rule("A3", "mask validation: in configure the store to the plugin's subscription mask is dominated by the rejection of any bit outside ValidEvents (events &^ ValidEvents != 0 returns an error), and an empty mask is replaced by ValidEvents", 1)
	f := m.method(pkgAdapt, "plugin", "configure")
	plT := m.named(pkgAdapt, "plugin")
	vo := m.pkg(pkgAPI).Pkg.Scope().Lookup("ValidEvents").(*types.Const)
	valid, _ := constant.Int64Val(vo.Val())
	stores := m.fieldStores(f, plT, "events")
	if len(stores) == 0 {
		c.violate("A3", "configure", f.Pos(), "configure sets the subscription mask", "no store to plugin.events")
		return
	}
	for _, fs := range stores {
		bad := ""
		hasDefault := false
		for _, src := range valueSources(fs.Store.Val, fs.Store, 0) {
			if cv, ok := constInt(src); ok {
				if cv != valid {
					bad = fmt.Sprintf("a constant mask 0x%x other than ValidEvents is stored", cv)
				} else {
					hasDefault = true
				}
				continue
			}
			// a plugin-supplied mask: the path on which it reaches the store passed the AND_NOT test
			checked := false
			for _, b := range f.Blocks {
				iff := lastIf(b)
				if iff == nil {
					continue
				}
				bo, ok := iff.Cond.(*ssa.BinOp)
				if !ok || (bo.Op != token.NEQ && bo.Op != token.EQL) {
					continue
				}
				an, ok := bo.X.(*ssa.BinOp)
				if !ok || an.Op != token.AND_NOT {
					continue
				}
				if zero, ok := constInt(bo.Y); !ok || zero != 0 {
					continue
				}
				if vv, ok := constInt(an.Y); !ok || vv != valid {
					continue
				}
				if an.X != src {
					continue
				}
				// the branch with extra bits must return a non-nil error
				extra := b.Succs[0]
				if bo.Op == token.EQL {
					extra = b.Succs[1]
				}
				if r, ok := extra.Instrs[len(extra.Instrs)-1].(*ssa.Return); ok {
					nn := true
					for _, v := range returnValues(r, 0) {
						if !isNonNilErrorValue(m, v, 0) {
							nn = false
						}
					}
					if nn && !canReach(extra, fs.Store.Block()) {
						// every path of src to the store passes this test
						if b.Dominates(fs.Store.Block()) || phiEdgeDominated(fs.Store.Val, src, b) {
							checked = true
						}
					}
				}
			}
			if !checked {
				bad = "a mask supplied by the plugin reaches plugin.events without passing the check against ValidEvents: the plugin is subscribed with undefined event bits"
			}
		}
		if bad == "" && !hasDefault {
			bad = "an empty mask is not replaced by ValidEvents: a plugin that subscribes with 0 (\"everything\", as plugins not built on the Go stub do) becomes active but is sent no request at all — containers created after it registered are in neither its snapshot nor a creation request"
		}
		c.ok("A3", "configure", fs.Store.Pos(), bad == "", "configure validates the plugin's event mask before subscribing it", bad)
	}
}

// phiEdgeDominated: value v is a phi; src reaches it only over edges whose predecessor is dominated by block b.
func phiEdgeDominated(v, src ssa.Value, b *ssa.BasicBlock) bool {
	ph, ok := v.(*ssa.Phi)
	if !ok {
		return false
	}
	found := false
	for i, e := range ph.Edges {
		if e == src {
			found = true
			if !b.Dominates(ph.Block().Preds[i]) {
				return false
			}
		}
	}
	return found
}
