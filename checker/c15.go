package main

import (
	"fmt"
	"go/token"
	"go/types"
	"strings"

	"golang.org/x/tools/go/ssa"
)

func init() {
	register("C15", &propInfo{
		run: func(c *Ctx) {
			ruleH1(c)
			ruleH2(c)
			ruleH3(c)
			ruleH4(c)
		},
		explanation: "Decides the table structure of the stub: every type assertion in setupHandlers against an interface stores that interface's sole method into the handler slot of the same name and (for the 13 event interfaces) sets exactly the bit of the event named like the method; all 13 events occur once, no bit is set outside such a branch and the subscription mask is written nowhere else; every handler slot is dispatched in exactly one place — the RPC method or the StateChange case of the event named like it — with the pod, container and resources of the incoming message in the handler's parameter order, its results wired unchanged into the same-named response fields and its error returned, and the no-handler path returns an empty response and nil; Configure rejects a mask asking for events the stub has no handler for before the success return, substitutes the implemented mask for an empty one and reports its result on the configuration channel exactly once on every path; a plugin implementing no event handler is refused at creation. No return that skips a handler reports an error of the stub's own.",
		notDecided: []string{
			"delivery 'exactly once' across the transport",
			"the values carried by the messages",
		},
	})
}

type handlerStore struct {
	slot, method, iface string
	nMethods            int
	store               *ssa.Store
	assert              *ssa.TypeAssert
}

// boundMethod: v is a bound method value x.M of an interface value; returns M and the interface type.
func boundMethod(v ssa.Value) (string, types.Type, ssa.Value) {
	mc, ok := v.(*ssa.MakeClosure)
	if !ok || len(mc.Bindings) != 1 {
		return "", nil, nil
	}
	fn, ok := mc.Fn.(*ssa.Function)
	if !ok || !strings.HasSuffix(fn.Name(), "$bound") {
		return "", nil, nil
	}
	return strings.TrimSuffix(fn.Name(), "$bound"), mc.Bindings[0].Type(), mc.Bindings[0]
}

// assertOf: the comma-ok type assertion that produced interface value v.
func assertOf(v ssa.Value) *ssa.TypeAssert {
	if ex, ok := v.(*ssa.Extract); ok && ex.Index == 0 {
		if ta, ok := ex.Tuple.(*ssa.TypeAssert); ok && ta.CommaOk {
			return ta
		}
	}
	return nil
}

// controlledByAssert: block b runs only when the assertion succeeded.
func controlledByAssert(b *ssa.BasicBlock, ta *ssa.TypeAssert) bool {
	for _, cd := range controls(b) {
		cd = normCond(cd)
		if ex, ok := cd.V.(*ssa.Extract); ok && ex.Tuple == ssa.Value(ta) && ex.Index == 1 && cd.Pol {
			return true
		}
	}
	return false
}

func ruleH1(c *Ctx) {
	m := c.M
	c.rule("H1", "handler table: each type assertion in setupHandlers against interface I stores I's sole method M into handler slot M and, for the 13 event interfaces, sets exactly the bit of the event named M; every event occurs once; no bit is set outside such a branch and stub.events is written nowhere else", 29)
	f := m.method(pkgStub, "stub", "setupHandlers")
	stT := m.named(pkgStub, "stub")
	names := eventMethodNames(m)
	evConst := eventConsts(m)
	setM := m.method(pkgAPI, "EventMask", "Set")
	slots := m.structOf(pkgStub, "handlers")
	stored := map[string]*handlerStore{}
	for _, b := range f.Blocks {
		for _, in := range b.Instrs {
			st, ok := in.(*ssa.Store)
			if !ok {
				continue
			}
			a := m.ap(st.Addr)
			if a.Root != ssa.Value(f.Params[0]) || len(a.Path) != 2 || a.Path[0] != "handlers" {
				continue
			}
			slot := a.Path[1]
			meth, it, recv := boundMethod(st.Val)
			hs := &handlerStore{slot: slot, method: meth, store: st}
			if it != nil {
				if iface, ok := it.Underlying().(*types.Interface); ok {
					hs.nMethods = iface.NumMethods()
				}
				hs.iface = it.String()
				hs.assert = assertOf(recv)
			}
			stored[slot] = hs
			bad := ""
			switch {
			case meth == "":
				bad = "the slot is not assigned a method of the asserted interface value"
			case meth != slot:
				bad = fmt.Sprintf("slot %s is assigned method %s: requests of one kind are delivered to the handler of another", slot, meth)
			case hs.nMethods != 1:
				bad = "the asserted interface has more than one method"
			case hs.assert == nil || !controlledByAssert(b, hs.assert):
				bad = "the assignment is not guarded by the success of the type assertion"
			default:
				pa := m.ap(hs.assert.X)
				if pa.Root != ssa.Value(f.Params[0]) || pa.PathString() != "plugin" {
					bad = "the asserted value is not the stub's plugin"
				}
			}
			c.ok("H1", "slot/"+slot, st.Pos(), bad == "", fmt.Sprintf("handler slot %s holds the plugin's %s method of its own interface", slot, slot), bad)
		}
	}
	for i := 0; i < slots.NumFields(); i++ {
		if stored[fname(slots.Field(i))] == nil {
			c.violate("H1", "slot/"+fname(slots.Field(i)), f.Pos(), "handler slot "+fname(slots.Field(i))+" is filled from the plugin", "setupHandlers never assigns this slot: the handler is never called")
		}
	}
	// event bits
	seenEv := map[string]bool{}
	for _, ci := range m.callsTo(f, setM) {
		call := ci.(*ssa.Call)
		ra := m.ap(call.Call.Args[0])
		evs := (&mergeFn{m: m}).appendedElems(call.Call.Args[1])
		for _, e := range evs {
			cv, ok := constInt(e)
			en := ""
			for n, v := range evConst {
				if ok && v == cv {
					en = n
				}
			}
			key := "bit/" + en
			bad := ""
			if ra.Root != ssa.Value(f.Params[0]) || ra.PathString() != "events" {
				bad = "the bit is not set in the stub's own mask"
			}
			if seenEv[en] {
				bad = "the event is set twice"
			}
			seenEv[en] = true
			// guarded by the assertion whose method is names[en], the same one that fills the slot
			meth := names[en]
			hs := stored[meth]
			if hs == nil || hs.assert == nil || !controlledByAssert(call.Block(), hs.assert) {
				bad = fmt.Sprintf("the bit of %s (%q) is not set in the branch where the plugin was found to implement %s: the plugin is subscribed to an event it has no handler for (or not subscribed to one it has)", en, meth, meth)
			}
			c.ok("H1", key, call.Pos(), bad == "", fmt.Sprintf("%s is subscribed exactly when the plugin implements %s", en, meth), bad)
		}
	}
	for en := range evConst {
		if en == "Event_UNKNOWN" || en == "Event_LAST" {
			continue
		}
		if !seenEv[en] {
			c.violate("H1", "bit/"+en, f.Pos(), en+" is subscribed when its handler is implemented", "setupHandlers never sets this event's bit: the plugin is never sent this event")
		}
	}
	// no other writer of stub.events
	for _, g := range m.funcsInPkg(pkgStub) {
		for _, fs := range m.fieldStores(g, stT, "events") {
			c.violate("H1", "events-writer/"+funcKey(g), fs.Store.Pos(), "the implemented-events mask is only built by setupHandlers", "stub.events is assigned in "+funcKey(g))
		}
		if g == f {
			continue
		}
		for _, ci := range calls(g) {
			if cal := m.callee(ci.Common()); cal != nil && (cal.Name() == "Set" || cal.Name() == "Clear") && recvNamed(cal) != nil && recvNamed(cal).Obj().Name() == "EventMask" {
				if a := m.ap(ci.Common().Args[0]); a.PathString() == "events" {
					c.violate("H1", "events-writer/"+funcKey(g), ci.Pos(), "the implemented-events mask is only built by setupHandlers", "stub.events is modified in "+funcKey(g))
				}
			}
		}
	}
}

// handlerCall is a call through a handler slot: directly (`stub.handlers.S(…)`), or through a helper
// that is handed the slot's value and calls it (`callHandler(ctx, stub.handlers.S, evt)`).
type handlerCall struct {
	fn    *ssa.Function // the function that reads the slot
	slot  string
	call  *ssa.Call                    // the call in fn: the dynamic call itself, or the call of the helper
	inner *ssa.Call                    // the dynamic call (== call when direct)
	argOf map[*ssa.Parameter]ssa.Value // helper parameter -> argument in fn (nil when direct)
}

func isStubPtr(m *Module, v ssa.Value) bool {
	if v == nil {
		return false
	}
	p, ok := v.Type().Underlying().(*types.Pointer)
	return ok && types.Identical(p.Elem(), m.named(pkgStub, "stub"))
}

func slotOf(m *Module, v ssa.Value, at ssa.Instruction) string {
	for _, src := range valueSources(v, at, 0) {
		a := m.ap(src)
		if isStubPtr(m, a.Root) && len(a.Path) == 2 && a.Path[0] == "handlers" {
			return a.Path[1]
		}
	}
	return ""
}

func handlerCalls(m *Module) []handlerCall {
	var out []handlerCall
	for _, f := range m.funcsInPkg(pkgStub) {
		for _, ci := range calls(f) {
			call, ok := ci.(*ssa.Call)
			if !ok || call.Call.IsInvoke() {
				continue
			}
			g := m.callee(call.Common())
			if g == nil {
				if slot := slotOf(m, call.Call.Value, call); slot != "" {
					out = append(out, handlerCall{f, slot, call, call, nil})
				}
				continue
			}
			if g.Pkg == nil || g.Pkg.Pkg.Path() != pkgStub || len(g.Blocks) == 0 {
				continue
			}
			for j, a := range call.Call.Args {
				if _, isFn := a.Type().Underlying().(*types.Signature); !isFn {
					continue
				}
				slot := slotOf(m, a, call)
				if slot == "" {
					continue
				}
				// the helper calls that parameter
				for _, ici := range calls(g) {
					ic, ok := ici.(*ssa.Call)
					if !ok || ic.Call.IsInvoke() || m.callee(ic.Common()) != nil {
						continue
					}
					for _, src := range valueSources(ic.Call.Value, ic, 0) {
						if src == ssa.Value(g.Params[j]) {
							argOf := map[*ssa.Parameter]ssa.Value{}
							for k, p := range g.Params {
								argOf[p] = call.Call.Args[k]
							}
							out = append(out, handlerCall{f, slot, call, ic, argOf})
						}
					}
				}
			}
		}
	}
	return out
}

// argAP: the access path of the handler's i-th argument, expressed over the values of hc.fn.
func (hc handlerCall) argAP(m *Module, i int) AP {
	a := m.ap(hc.inner.Call.Args[i])
	if hc.argOf == nil {
		return a
	}
	if p, ok := a.Root.(*ssa.Parameter); ok {
		if outer, ok := hc.argOf[p]; ok {
			o := m.ap(outer)
			for _, st := range a.Path {
				o = o.extend(st)
			}
			return o
		}
	}
	return a
}

// errorReturnedUp: result #idx of call is returned as the error of its function and, when that
// function is a helper rather than an RPC method of the stub, by every caller in turn.
func errorReturnedUp(m *Module, call *ssa.Call, idx, depth int) bool {
	f := call.Parent()
	nres := call.Call.Signature().Results().Len()
	ok := false
	for _, r := range returnsOf(f) {
		if !instrCanReach(call, r) || len(r.Results) == 0 {
			continue
		}
		for _, v := range returnValues(r, len(r.Results)-1) {
			if nres == 1 && v == ssa.Value(call) {
				ok = true
			}
			if ex, isEx := v.(*ssa.Extract); isEx && ex.Tuple == ssa.Value(call) && ex.Index == idx {
				ok = true
			}
		}
	}
	if !ok {
		return false
	}
	if f.Signature.Recv() != nil && token.IsExported(f.Name()) {
		return true
	}
	cs := m.callersOf(f)
	if depth > 3 || len(cs) == 0 {
		return f.Signature.Recv() != nil
	}
	for _, x := range cs {
		oc, isCall := x.Instr.(*ssa.Call)
		if !isCall || !errorReturnedUp(m, oc, oc.Call.Signature().Results().Len()-1, depth+1) {
			return false
		}
	}
	return true
}

// reachedOnlyFrom: f is root or all of its (transitive) callers lead to root only.
func reachedOnlyFrom(m *Module, f, root *ssa.Function, depth int) bool {
	if f == root {
		return true
	}
	cs := m.callersOf(f)
	if len(cs) == 0 || depth > 3 || len(m.funcRefs(f)) > 0 {
		return false
	}
	for _, x := range cs {
		if !reachedOnlyFrom(m, x.Caller, root, depth+1) {
			return false
		}
	}
	return true
}

func ruleH2(c *Ctx) {
	m := c.M
	c.rule("H2", "dispatch: every handler slot is called in exactly one place — the RPC method named like it, or the StateChange case of the event named like it — with (Pod[, Container][, resources]) of the incoming message in parameter order; results are wired unchanged into the same-named response fields, the error is returned, and the no-handler path returns an empty response and nil", 16)
	names := eventMethodNames(m)
	evConst := eventConsts(m)
	hcs := handlerCalls(m)
	bySlot := map[string][]handlerCall{}
	for _, hc := range hcs {
		bySlot[hc.slot] = append(bySlot[hc.slot], hc)
	}
	slots := m.structOf(pkgStub, "handlers")
	stateChange := m.method(pkgStub, "stub", "StateChange")
	// the message parameter of a function: its parameter of the given api type (nil: any api message)
	msgParam := func(f *ssa.Function, typ string) ssa.Value {
		for _, p := range f.Params {
			if n := ptrNamed(p.Type()); n != nil && n.Obj().Pkg() != nil && n.Obj().Pkg().Path() == pkgAPI {
				if typ == "" || n.Obj().Name() == typ {
					return p
				}
			}
		}
		return nil
	}
	// expected argument fields per slot (after ctx); frozen only where two parameters share a type
	frozen := map[string][]string{"UpdatePodSandbox": {"Pod", "OverheadLinuxResources", "LinuxResources"}}
	for i := 0; i < slots.NumFields(); i++ {
		slot := fname(slots.Field(i))
		key := "slot/" + slot
		what := "handler " + slot + " is dispatched once, for its own request/event, with the message's contents"
		hl := bySlot[slot]
		if len(hl) != 1 {
			c.violate("H2", key, token.NoPos, what, fmt.Sprintf("%d call sites of this handler (want exactly 1): the event is delivered twice or never", len(hl)))
			continue
		}
		hc := hl[0]
		bad := ""
		ownMethod := m.methodOpt(pkgStub, "stub", slot)
		inState := false
		switch {
		case ownMethod != nil && reachedOnlyFrom(m, hc.fn, ownMethod, 0):
		case slot == "Synchronize" && reachedOnlyFrom(m, hc.fn, m.method(pkgStub, "stub", "Synchronize"), 0):
		case reachedOnlyFrom(m, hc.fn, stateChange, 0):
			inState = true
			// controlled by evt.Event == E with names[E] == slot
			found := false
			evt := msgParam(hc.fn, "StateChangeEvent")
			for _, cd := range controls(hc.call.Block()) {
				cd = normCond(cd)
				bo, ok := cd.V.(*ssa.BinOp)
				if !ok || !((bo.Op == token.EQL && cd.Pol) || (bo.Op == token.NEQ && !cd.Pol)) {
					continue
				}
				ea := m.ap(bo.X)
				cv, isC := constInt(bo.Y)
				if !isC || evt == nil || ea.Root != evt || ea.PathString() != "Event" {
					continue
				}
				for en, v := range evConst {
					if v == cv {
						if names[en] == slot {
							found = true
						} else {
							bad = fmt.Sprintf("the case for %s (%q) calls handler %s: the plugin's %s handler receives %s events", en, names[en], slot, slot, names[en])
						}
					}
				}
			}
			if !found && bad == "" {
				bad = "the call is not under the case of the event named like the handler"
			}
		default:
			bad = fmt.Sprintf("handler %s is called from %s", slot, hc.fn.Name())
		}
		// arguments
		if bad == "" && slot != "Synchronize" && slot != "Shutdown" && slot != "Configure" {
			msg := msgParam(hc.fn, "")
			sig := hc.inner.Call.Signature()
			var wantF []string
			if fz, ok := frozen[slot]; ok {
				wantF = fz
			} else {
				for i := 1; i < sig.Params().Len(); i++ {
					n := ptrNamed(sig.Params().At(i).Type())
					switch {
					case n != nil && n.Obj().Name() == "PodSandbox":
						wantF = append(wantF, "Pod")
					case n != nil && n.Obj().Name() == "Container":
						wantF = append(wantF, "Container")
					case n != nil && n.Obj().Name() == "LinuxResources":
						wantF = append(wantF, "LinuxResources")
					default:
						wantF = append(wantF, "?")
					}
				}
			}
			for i, wf := range wantF {
				a := hc.argAP(m, i+1)
				if msg == nil || a.Root != msg || a.PathString() != wf {
					bad = fmt.Sprintf("argument %d is %s, want the message's %s", i+1, a, wf)
				}
			}
		}
		// a helper passes the handler's results through unchanged
		if bad == "" && hc.inner != hc.call {
			g := hc.inner.Parent()
			nres := hc.inner.Call.Signature().Results().Len()
			if g.Signature.Results().Len() != nres {
				bad = "the helper " + funcKey(g) + " does not return the handler's results"
			}
			for _, r := range returnsOf(g) {
				if !instrCanReach(hc.inner, r) || bad != "" {
					continue
				}
				for i := 0; i < nres; i++ {
					for _, v := range returnValues(r, i) {
						okV := nres == 1 && v == ssa.Value(hc.inner)
						if ex, isEx := v.(*ssa.Extract); isEx && ex.Tuple == ssa.Value(hc.inner) && ex.Index == i {
							okV = true
						}
						if !okV {
							bad = fmt.Sprintf("the helper %s does not return the handler's result #%d unchanged", funcKey(g), i)
						}
					}
				}
			}
		}
		// results
		if bad == "" && hc.inner.Call.Signature().Results().Len() > 0 && slot != "Configure" {
			sig := hc.inner.Call.Signature()
			nres := sig.Results().Len()
			if !errorReturnedUp(m, hc.call, nres-1, 0) {
				bad = "the handler's error is not what the method returns"
			}
			// data results -> response fields
			if nres > 1 {
				wantFields := []string{"Update"}
				if nres == 3 {
					wantFields = []string{"Adjust", "Update"}
				}
				flows := m.fieldFlows(hc.fn)
				for i, wf := range wantFields {
					ok := false
					for _, fl := range flows {
						if fl.Path == wf {
							if ex, isEx := fl.Val.(*ssa.Extract); isEx && ex.Tuple == ssa.Value(hc.call) && ex.Index == i {
								ok = true
							}
						}
					}
					if !ok && bad == "" {
						bad = fmt.Sprintf("result #%d of the handler is not stored in the response's %s field", i, wf)
					}
				}
			}
		}
		// nil-handler path
		if bad == "" && !inState && slot != "Synchronize" {
			okNil := false
			g := hc.inner.Parent()
			for _, r := range returnsOf(g) {
				if domInstr(hc.inner, r) {
					continue
				}
				for _, v := range returnValues(r, len(r.Results)-1) {
					if isNilConst(v) {
						okNil = true
					}
				}
			}
			if !okNil && slot != "Shutdown" && slot != "Configure" {
				bad = "there is no path for a missing handler that returns an empty response and nil"
			}
			// … and it is the only way past the handler: no return that skips the call reports an error of the stub's own
			for _, r := range returnsOf(g) {
				if domInstr(hc.inner, r) || instrCanReach(hc.inner, r) {
					continue
				}
				for _, v := range returnValues(r, len(r.Results)-1) {
					if !isNilConst(v) && bad == "" {
						bad = fmt.Sprintf("the return at %s skips the handler and reports an error of the stub's own: the request is delivered zero times and the runtime gets that error instead of the handler's answer", c.pos(r.Pos()))
					}
				}
			}
		}
		c.ok("H2", key, hc.call.Pos(), bad == "", what, bad)
	}
	// every event has a dispatch place
	for en, meth := range names {
		if _, ok := bySlot[meth]; !ok {
			c.violate("H2", "event/"+en, token.NoPos, en+" is dispatched to a handler", "no call of handler "+meth)
		}
	}
}

func ruleH3(c *Ctx) {
	m := c.M
	c.rule("H3", "clamp: in Configure the success return is dominated by the rejection of events &^ stub.events != 0 whenever the plugin's handler supplied the mask; a zero mask is replaced by stub.events; the configuration result is sent on the configuration channel exactly once on every path", 3)
	f := m.method(pkgStub, "stub", "Configure")
	// the handler call
	var hcall *ssa.Call
	for _, hc := range handlerCalls(m) {
		if hc.fn == f && hc.slot == "Configure" {
			hcall = hc.call
		}
	}
	// the AND_NOT test
	var clamp *ssa.If
	for _, b := range f.Blocks {
		iff := lastIf(b)
		if iff == nil {
			continue
		}
		bo, ok := iff.Cond.(*ssa.BinOp)
		if !ok || bo.Op != token.NEQ {
			continue
		}
		if z, ok := constInt(bo.Y); !ok || z != 0 {
			continue
		}
		for _, src := range valueSources(bo.X, iff, 0) {
			an, ok := src.(*ssa.BinOp)
			if !ok {
				continue
			}
			isClamp := false
			if an.Op == token.AND_NOT && m.ap(an.Y).PathString() == "events" {
				isClamp = true
			}
			if an.Op == token.AND {
				if x, ok := an.Y.(*ssa.UnOp); ok && x.Op == token.XOR && m.ap(x.X).PathString() == "events" {
					isClamp = true
				}
			}
			if !isClamp {
				continue
			}
			// the left operand can be the handler's mask
			fromHandler := false
			for _, s2 := range valueSources(an.X, an, 0) {
				if ex, ok := s2.(*ssa.Extract); ok && hcall != nil && ex.Tuple == ssa.Value(hcall) && ex.Index == 0 {
					fromHandler = true
				}
			}
			if fromHandler {
				clamp = iff
			}
		}
	}
	what := "Configure rejects a subscription to events the plugin has no handler for"
	if hcall == nil {
		c.violate("H3", "clamp", f.Pos(), what, "the Configure handler call was not found")
	} else if clamp == nil {
		c.violate("H3", "clamp", f.Pos(), what, "no test of (handler's events) &^ stub.events != 0: the plugin can subscribe to events it cannot handle")
	} else {
		rej, acc := clamp.Block().Succs[0], clamp.Block().Succs[1]
		bad := ""
		okRej := false
		for _, r := range returnsOf(f) {
			if rej.Dominates(r.Block()) {
				for _, v := range returnValues(r, 1) {
					if isNonNilErrorValue(m, v, 0) {
						okRej = true
					}
				}
			}
		}
		if !okRej {
			bad = "the branch with extra events does not return an error"
		}
		for _, r := range returnsOf(f) {
			if !instrCanReach(hcall, r) {
				continue
			}
			nilErr := false
			for _, v := range returnValues(r, 1) {
				if isNilConst(v) {
					nilErr = true
				}
			}
			if nilErr && reachable(hcall.Block(), map[*ssa.BasicBlock]bool{acc: true})[r.Block()] {
				bad = fmt.Sprintf("the successful return at %s can be reached from the handler call without passing the clamp", c.pos(r.Pos()))
			}
		}
		c.ok("H3", "clamp", clamp.Pos(), bad == "", what, bad)
	}
	// zero mask replaced by stub.events: exactly when the handler's mask is zero
	okZero := false
	badZero := "no branch replaces an empty mask by the implemented events"
	for _, b := range f.Blocks {
		for _, in := range b.Instrs {
			st, ok := in.(*ssa.Store)
			if !ok || m.ap(st.Val).PathString() != "events" {
				continue
			}
			if _, isCell := st.Addr.(*ssa.Alloc); !isCell {
				continue
			}
			if hcall == nil || !instrCanReach(hcall, st) {
				continue // the no-handler default
			}
			cds := controls(b)
			okHere := false
			if len(cds) > 0 {
				if bo, ok := normCond(cds[0]).V.(*ssa.BinOp); ok && bo.Op == token.EQL && cds[0].Pol {
					if z, ok := constInt(bo.Y); ok && z == 0 {
						for _, src := range valueSources(bo.X, cds[0].If, 0) {
							if ex, ok := src.(*ssa.Extract); ok && ex.Tuple == ssa.Value(hcall) && ex.Index == 0 {
								okHere = true
							}
						}
					}
				}
			}
			if okHere {
				okZero = true
			} else {
				okZero = false
				badZero = "the handler's mask is replaced by the implemented events under a condition other than 'mask == 0': a non-empty mask asking for more than the plugin implements is silently clamped instead of rejected (or a valid one is overridden)"
			}
		}
	}
	c.ok("H3", "zero-mask", f.Pos(), okZero, "only an empty mask from the handler is replaced by the implemented events", badZero)
	// cfgErrC: exactly one send, in a deferred closure registered before any return
	nSend := 0
	var df *ssa.Defer
	for _, af := range f.AnonFuncs {
		for _, b := range af.Blocks {
			for _, in := range b.Instrs {
				if s, ok := in.(*ssa.Send); ok && m.ap(s.Chan).PathString() == "cfgErrC" {
					nSend++
					if inLoop(b) {
						nSend++
					}
				}
			}
		}
	}
	for _, b := range f.Blocks {
		for _, in := range b.Instrs {
			if s, ok := in.(*ssa.Send); ok && m.ap(s.Chan).PathString() == "cfgErrC" {
				nSend += 10 // direct sends are not the accepted idiom
			}
			if d, ok := in.(*ssa.Defer); ok {
				if cf := closureFn(d.Call.Value); cf != nil {
					for _, af := range f.AnonFuncs {
						if af == cf {
							df = d
						}
					}
				}
			}
		}
	}
	okSend := nSend == 1 && df != nil
	if okSend {
		for _, r := range returnsOf(f) {
			if !domInstr(df, r) {
				okSend = false
			}
		}
	}
	c.ok("H3", "result-once", f.Pos(), okSend, "Configure reports its result on the configuration channel exactly once on every path (deferred)",
		"the configuration result is not sent exactly once on every return path: Start blocks forever or a later Start reads a stale result")
}

func ruleH4(c *Ctx) {
	m := c.M
	c.rule("H4", "no handlers, no stub: setupHandlers returns an error when the implemented-events mask stays empty, and New returns that error", 2)
	f := m.method(pkgStub, "stub", "setupHandlers")
	okT := false
	for _, b := range f.Blocks {
		iff := lastIf(b)
		if iff == nil {
			continue
		}
		bo, ok := iff.Cond.(*ssa.BinOp)
		if !ok || bo.Op != token.EQL {
			continue
		}
		if z, ok := constInt(bo.Y); !ok || z != 0 || m.ap(bo.X).PathString() != "events" {
			continue
		}
		t := b.Succs[0]
		if r, ok := t.Instrs[len(t.Instrs)-1].(*ssa.Return); ok {
			for _, v := range returnValues(r, 0) {
				if isNonNilErrorValue(m, v, 0) {
					okT = true
				}
			}
		}
	}
	c.ok("H4", "setupHandlers", f.Pos(), okT, "setupHandlers fails when the plugin implements no event handler", "no error return under stub.events == 0")
	nw := m.fn(pkgStub, "New")
	okN := false
	for _, ci := range m.callsTo(nw, f) {
		if call, ok := ci.(*ssa.Call); ok {
			if st, _ := errPropagated(m, nw, call); st == "ok" {
				okN = true
			}
		}
	}
	c.ok("H4", "New", nw.Pos(), okN, "New returns setupHandlers' error", "New ignores the error of setupHandlers")
}
