package main

import (
	"fmt"
	"go/token"

	"golang.org/x/tools/go/ssa"
)

func init() {
	register("C19", &propInfo{
		run: func(c *Ctx) {
			ruleU1(c)
			ruleU2(c)
			ruleU3(c)
			ruleL1(c)
		},
		explanation: "Decides the structure around the runtime's update callback: the callback stored in the adaptation is called from exactly one place and there with the adaptation lock held — the same lock under which every other request touches the plugin list and calls plugins, hence mutual exclusion; the plugin's update list reaches the callback unchanged (UpdateContainers request -> updateContainers -> callback) and the callback's failed list and error are returned unchanged in the response; on the stub side the argument is sent as the request's Update and the response's Failed list and the RPC error are returned; a stub that has not been started tests its runtime client first and returns ErrNoService without making the call. The stub's call carries no deadline of its own; every relay call of a request method is under the adaptation lock whatever list it iterates. Every return after the callback yields the callback's error.",
		notDecided: []string{
			"exactly-once delivery over the transport",
			"what the runtime's callback does",
		},
	})
}

// updateFnCalls: calls through the Adaptation.updateFn field.
func updateFnCalls(m *Module) []*ssa.Call {
	var out []*ssa.Call
	for _, f := range m.funcsInPkg(pkgAdapt) {
		for _, ci := range calls(f) {
			call, ok := ci.(*ssa.Call)
			if !ok || call.Call.IsInvoke() || m.callee(call.Common()) != nil {
				continue
			}
			a := m.ap(call.Call.Value)
			if len(a.Path) > 0 && a.Path[len(a.Path)-1] == "updateFn" {
				out = append(out, call)
			}
		}
	}
	return out
}

func ruleU1(c *Ctx) {
	m := c.M
	c.rule("U1", "single guarded call site: the runtime's update callback is called from exactly one function, with Adaptation.Mutex held; it is stored only when the adaptation is created", 2)
	la := adaptationLocks(c)
	ucs := updateFnCalls(m)
	if len(ucs) != 1 {
		c.violate("U1", "updateFn/callers", token.NoPos, "the update callback has exactly one call site", fmt.Sprintf("%d call sites: an unsolicited update can reach the runtime more than once or by an unguarded path", len(ucs)))
	}
	for _, call := range ucs {
		c.ok("U1", "updateFn/"+funcKey(call.Parent()), call.Pos(), la.holds(call, "Adaptation.Mutex", 'W'), "the update callback is invoked in "+funcKey(call.Parent())+" under the adaptation lock",
			"the callback runs with lockset "+la.describe(call)+": it can run concurrently with another NRI request or another plugin's unsolicited update")
	}
	adT := m.named(pkgAdapt, "Adaptation")
	for _, f := range m.funcsInPkg(pkgAdapt) {
		for _, fs := range m.fieldStores(f, adT, "updateFn") {
			_, fresh := fs.Addr.X.(*ssa.Alloc)
			c.ok("U1", "updateFn-writer/"+funcKey(f), fs.Store.Pos(), fresh, "the update callback is only set on a newly created adaptation", "updateFn is re-assigned on a live adaptation in "+funcKey(f))
		}
	}
}

func ruleU2(c *Ctx) {
	m := c.M
	c.rule("U2", "pass-through: plugin.UpdateContainers passes the request's Update list to updateContainers, which passes it to the callback; the callback's results are returned unchanged (Failed <- result 0, error <- result 1); the stub sends its argument as Update and returns (response.Failed, error)", 6)
	pu := m.method(pkgAdapt, "plugin", "UpdateContainers")
	uc := m.method(pkgAdapt, "Adaptation", "updateContainers")
	// plugin.UpdateContainers -> updateContainers(ctx, req.Update)
	var inner *ssa.Call
	for _, ci := range m.callsTo(pu, uc) {
		inner, _ = ci.(*ssa.Call)
	}
	if inner == nil {
		c.violate("U2", "plugin.UpdateContainers/forward", pu.Pos(), "the plugin's request is forwarded to the adaptation", "plugin.UpdateContainers does not call updateContainers")
		return
	}
	a := m.ap(inner.Call.Args[2])
	c.ok("U2", "plugin.UpdateContainers/arg", inner.Pos(), a.Root == ssa.Value(pu.Params[2]) && a.PathString() == "Update", "the request's Update list is forwarded unchanged", "the argument forwarded is "+a.String()+", not the request's Update")
	okF, okE := false, false
	for _, fl := range m.fieldFlows(pu) {
		if fl.Path == "Failed" {
			if ex, ok := fl.Val.(*ssa.Extract); ok && ex.Tuple == ssa.Value(inner) && ex.Index == 0 {
				okF = true
			}
		}
	}
	for _, r := range returnsOf(pu) {
		if !instrCanReach(inner, r) {
			continue
		}
		okE = true
		for _, v := range returnValues(r, 1) {
			if ex, ok := v.(*ssa.Extract); !ok || ex.Tuple != ssa.Value(inner) || ex.Index != 1 {
				okE = false // some path returns another error value (for instance nil when the callback failed)
			}
		}
		if !okE {
			break
		}
	}
	c.ok("U2", "plugin.UpdateContainers/failed", inner.Pos(), okF, "the response's Failed list is the callback's failed list", "Failed is not result #0 of updateContainers: the plugin does not learn which updates failed")
	c.ok("U2", "plugin.UpdateContainers/error", inner.Pos(), okE, "the RPC returns the callback's error", "the error returned is not result #1 of updateContainers")
	// updateContainers -> updateFn(ctx, req), results returned directly
	for _, call := range updateFnCalls(m) {
		f := call.Parent()
		okA := len(call.Call.Args) == 2 && call.Call.Args[1] == ssa.Value(f.Params[2])
		okR := false
		for _, r := range returnsOf(f) {
			ok0, ok1 := false, false
			for _, v := range returnValues(r, 0) {
				if ex, ok := v.(*ssa.Extract); ok && ex.Tuple == ssa.Value(call) && ex.Index == 0 {
					ok0 = true
				}
			}
			for _, v := range returnValues(r, 1) {
				if ex, ok := v.(*ssa.Extract); ok && ex.Tuple == ssa.Value(call) && ex.Index == 1 {
					ok1 = true
				}
			}
			if ok0 && ok1 {
				okR = true
			}
		}
		c.ok("U2", "updateContainers/through", call.Pos(), okA && okR, "updateContainers hands its argument to the callback and returns the callback's results", "the update list or the callback's results are altered on the way")
	}
	// stub side
	su := m.method(pkgStub, "stub", "UpdateContainers")
	var rpc ssa.CallInstruction
	for _, ci := range calls(su) {
		if ci.Common().IsInvoke() && ci.Common().Method.Name() == "UpdateContainers" {
			rpc = ci
		}
	}
	if rpc == nil {
		c.violate("U2", "stub.UpdateContainers/rpc", su.Pos(), "the stub calls the runtime's UpdateContainers", "no such call")
		return
	}
	okU := false
	for _, fl := range m.fieldFlows(su) {
		if fl.Path == "Update" && fl.Val == ssa.Value(su.Params[1]) {
			okU = true
		}
	}
	reqOK := false
	if al, ok := rpc.Common().Args[1].(*ssa.Alloc); ok && al != nil {
		reqOK = true
	}
	c.ok("U2", "stub.UpdateContainers/request", rpc.Pos(), okU && reqOK, "the stub sends exactly its argument as the request's Update", "the request's Update is not the caller's list")
	okRet := false
	call := rpc.(*ssa.Call)
	for _, r := range returnsOf(su) {
		if !domInstr(call, r) {
			continue
		}
		for _, v := range returnValues(r, 0) {
			a := m.ap(v)
			if a.PathString() == "#0.Failed" {
				for _, e := range returnValues(r, 1) {
					if ex, ok := e.(*ssa.Extract); ok && ex.Tuple == ssa.Value(call) && ex.Index == 1 {
						okRet = true
					}
				}
			}
		}
	}
	c.ok("U2", "stub.UpdateContainers/result", rpc.Pos(), okRet, "the stub returns the response's Failed list and the RPC error", "the stub does not return (response.Failed, err)")
	// the call waits for the runtime's answer: its context carries no deadline of the stub's own, since the
	// runtime applies the update exactly once however long it takes (lock wait plus callback)
	okCtx := false
	ctxArg := rpc.Common().Args[0]
	for _, src := range valueSources(ctxArg, rpc, 0) {
		if cc, ok := src.(*ssa.Call); ok {
			if g := m.callee(cc.Common()); g != nil && (g.String() == "context.Background" || g.String() == "context.TODO") {
				okCtx = true
				continue
			}
		}
		okCtx = false
		break
	}
	c.ok("U2", "stub.UpdateContainers/no-deadline", rpc.Pos(), okCtx, "the stub waits for the runtime's own result (a context without deadline)",
		"the request is made with a derived context (a timeout or cancellation of the stub's own): when the runtime takes longer — waiting for other requests or in its callback — the update is still applied once, but the plugin is told 'deadline exceeded' instead of the callback's failed list or error")
}

func ruleU3(c *Ctx) {
	m := c.M
	c.rule("U3", "not started: the test stub.runtime == nil dominates the RPC in stub.UpdateContainers and its true branch returns ErrNoService; the function does not take the stub lock (held by Start throughout)", 2)
	su := m.method(pkgStub, "stub", "UpdateContainers")
	var rpc ssa.CallInstruction
	for _, ci := range calls(su) {
		if ci.Common().IsInvoke() && ci.Common().Method.Name() == "UpdateContainers" {
			rpc = ci
		}
	}
	bad := "no test of stub.runtime against nil: an unstarted stub dereferences a nil client (panic) or blocks"
	for _, b := range su.Blocks {
		iff := lastIf(b)
		if iff == nil {
			continue
		}
		bo, ok := iff.Cond.(*ssa.BinOp)
		if !ok || !isNilConst(bo.Y) || m.ap(bo.X).PathString() != "runtime" {
			continue
		}
		nilB, okB := b.Succs[0], b.Succs[1]
		if bo.Op == token.NEQ {
			nilB, okB = okB, nilB
		}
		bad = ""
		if rpc == nil || !okB.Dominates(rpc.Block()) {
			bad = "the RPC is not dominated by the runtime != nil branch"
		}
		okE := false
		if r, ok := nilB.Instrs[len(nilB.Instrs)-1].(*ssa.Return); ok {
			for _, v := range returnValues(r, 1) {
				if u, ok := v.(*ssa.UnOp); ok {
					if g, ok := u.X.(*ssa.Global); ok && g.Name() == "ErrNoService" {
						okE = true
					}
				}
			}
		}
		if !okE && bad == "" {
			bad = "the not-started branch does not return ErrNoService"
		}
	}
	c.ok("U3", "stub.UpdateContainers", su.Pos(), bad == "", "an unstarted stub reports ErrNoService instead of calling", bad)
	// the answer must not wait for the stub lock, which Start holds for its whole duration
	la := allLocks(c)
	locks := ""
	for _, a := range la.acquired[su] {
		if a.ID.Name == "stub.Mutex" {
			locks = c.pos(a.At.Pos())
		}
	}
	for _, ci := range calls(su) {
		if g := m.callee(ci.Common()); g != nil && la.scope[g] {
			if eff := la.summarise(g); eff != nil {
				for _, a := range la.acquired[g] {
					if a.ID.Name == "stub.Mutex" {
						locks = c.pos(ci.Pos())
					}
				}
			}
		}
	}
	c.ok("U3", "stub.UpdateContainers/no-lock", su.Pos(), locks == "", "UpdateContainers answers without waiting for the stub lock",
		"UpdateContainers takes the stub lock (at "+locks+"), which Start holds while it dials, registers and waits to be configured: a stub that has not (yet) been started blocks instead of reporting that it has no service")
}
