package main

import (
	"fmt"
	"go/constant"
	"go/token"
	"go/types"
	"sort"
	"strings"

	"golang.org/x/tools/go/ssa"
)

// ---------------------------------------------------------------- callee resolution

// globalFunc resolves a package-level func variable that is stored exactly
// once in its package (in init) from a function value, e.g.
// adaptation.Int64 = api.Int64.
func (m *Module) globalFunc(g *ssa.Global) *ssa.Function {
	if f, ok := m.gfCache[g]; ok {
		return f
	}
	var found *ssa.Function
	n := 0
	for _, fn := range m.funcs() {
		if fn.Pkg != g.Pkg {
			continue
		}
		for _, b := range fn.Blocks {
			for _, in := range b.Instrs {
				if st, ok := in.(*ssa.Store); ok && st.Addr == g {
					n++
					if f, ok := st.Val.(*ssa.Function); ok {
						found = f
					}
				}
			}
		}
	}
	if n != 1 {
		found = nil
	}
	m.gfCache[g] = found
	return found
}

// callee returns the statically known callee of a call: a static callee, or a
// call through an init-once package-level function variable.
func (m *Module) callee(c *ssa.CallCommon) *ssa.Function {
	if f := c.StaticCallee(); f != nil {
		return f
	}
	if u, ok := c.Value.(*ssa.UnOp); ok && u.Op == token.MUL {
		if g, ok := u.X.(*ssa.Global); ok {
			return m.globalFunc(g)
		}
	}
	return nil
}

// calleeName gives a stable printable name for a call's target.
func (m *Module) calleeName(c *ssa.CallCommon) string {
	if f := m.callee(c); f != nil {
		return f.String()
	}
	if c.IsInvoke() {
		return "invoke " + c.Method.FullName()
	}
	if b, ok := c.Value.(*ssa.Builtin); ok {
		return "builtin " + b.Name()
	}
	return "dynamic"
}

type callSite struct {
	Instr  ssa.CallInstruction
	Caller *ssa.Function
}

// calls lists the call instructions (call, go, defer) of fn in block order.
func calls(fn *ssa.Function) []ssa.CallInstruction {
	var out []ssa.CallInstruction
	for _, b := range fn.Blocks {
		for _, in := range b.Instrs {
			if ci, ok := in.(ssa.CallInstruction); ok {
				out = append(out, ci)
			}
		}
	}
	return out
}

// callsTo lists the call instructions in fn whose resolved callee is target.
func (m *Module) callsTo(fn, target *ssa.Function) []ssa.CallInstruction {
	var out []ssa.CallInstruction
	for _, ci := range calls(fn) {
		if m.callee(ci.Common()) == target {
			out = append(out, ci)
		}
	}
	return out
}

// invokesOf lists interface-method invocations named name in fn.
func invokesOf(fn *ssa.Function, name string) []ssa.CallInstruction {
	var out []ssa.CallInstruction
	for _, ci := range calls(fn) {
		if ci.Common().IsInvoke() && ci.Common().Method.Name() == name {
			out = append(out, ci)
		}
	}
	return out
}

// buildCallers computes the static caller map (static callees, init-once
// globals, closures attributed to their defining function via MakeClosure).
func (m *Module) callersOf(f *ssa.Function) []callSite {
	if m.callers == nil {
		m.callers = map[*ssa.Function][]callSite{}
		for _, fn := range m.funcs() {
			for _, ci := range calls(fn) {
				if cal := m.callee(ci.Common()); cal != nil {
					m.callers[cal] = append(m.callers[cal], callSite{ci, fn})
				}
			}
		}
	}
	return m.callers[f]
}

// funcRefs lists the places where function f is used as a value (not called):
// stored, passed as an argument, bound as a method value or closure.
func (m *Module) funcRefs(f *ssa.Function) []ssa.Instruction {
	if m.refs == nil {
		m.refs = map[*ssa.Function][]ssa.Instruction{}
		for _, fn := range m.funcs() {
			for _, b := range fn.Blocks {
				for _, in := range b.Instrs {
					var ops [12]*ssa.Value
					for _, op := range in.Operands(ops[:0]) {
						if *op == nil {
							continue
						}
						if g, ok := (*op).(*ssa.Function); ok {
							if ci, isCall := in.(ssa.CallInstruction); isCall && ci.Common().Value == *op {
								continue
							}
							m.refs[g] = append(m.refs[g], in)
						}
					}
				}
			}
		}
	}
	return m.refs[f]
}

// ---------------------------------------------------------------- access paths

// AP is an access path: a root value and a path of field names, "[]" (slice /
// array element) and "{}" (map element) / "{key}" (map key) steps.  Wrap lists
// the pure wrappers the value passed through on the way.
type AP struct {
	Root ssa.Value
	Path []string
	Wrap []string
}

func (a AP) extend(step string) AP {
	return AP{a.Root, append(append([]string{}, a.Path...), step), a.Wrap}
}

func (a AP) wrap(w string) AP {
	return AP{a.Root, a.Path, append(append([]string{}, a.Wrap...), w)}
}

func (a AP) PathString() string { return strings.Join(a.Path, ".") }

func (a AP) RootString() string {
	switch v := a.Root.(type) {
	case *ssa.Parameter:
		return "param:" + v.Name()
	case *ssa.FreeVar:
		return "free:" + v.Name()
	case *ssa.Global:
		return "global:" + v.Name()
	case *ssa.Alloc:
		return "alloc:" + v.Comment
	case *ssa.Const:
		return "const:" + v.String()
	case *ssa.Call:
		return "call"
	case *ssa.Phi:
		return "phi:" + v.Comment
	case nil:
		return "nil"
	}
	return fmt.Sprintf("%T", a.Root)
}

func (a AP) String() string {
	s := a.RootString()
	if cl, ok := a.Root.(*ssa.Call); ok {
		s = "call:" + shortCallee(cl.Common())
	}
	if len(a.Path) > 0 {
		s += "." + a.PathString()
	}
	if len(a.Wrap) > 0 {
		s += " via " + strings.Join(a.Wrap, ",")
	}
	return s
}

func shortCallee(c *ssa.CallCommon) string {
	if f := c.StaticCallee(); f != nil {
		return f.Name()
	}
	if c.IsInvoke() {
		return c.Method.Name()
	}
	return "?"
}

// HasPrefix reports whether the path starts with the given steps.
func (a AP) HasPrefix(steps ...string) bool {
	if len(a.Path) < len(steps) {
		return false
	}
	for i, s := range steps {
		if a.Path[i] != s {
			return false
		}
	}
	return true
}

func (a AP) isParam(name string) bool {
	p, ok := a.Root.(*ssa.Parameter)
	return ok && p.Name() == name
}

func (a AP) isParamIdx(fn *ssa.Function, i int) bool {
	p, ok := a.Root.(*ssa.Parameter)
	return ok && i < len(fn.Params) && fn.Params[i] == p
}

type getterInfo struct {
	field string
	ok    bool
}

// getterField recognises generated protobuf getters by the shape of their
// body — `if x != nil { return x.F }; return zero` — not by name alone.
func (m *Module) getterField(f *ssa.Function) (string, bool) {
	if f == nil || f.Signature.Recv() == nil || len(f.Params) != 1 || f.Blocks == nil {
		return "", false
	}
	if gi, ok := m.getterMemo[f]; ok {
		return gi.field, gi.ok
	}
	res := getterInfo{}
	defer func() { m.getterMemo[f] = res }()
	if len(f.Blocks) > 4 {
		return "", false
	}
	recv := f.Params[0]
	if _, isPtr := recv.Type().Underlying().(*types.Pointer); !isPtr {
		return "", false
	}
	var fields []string
	for _, b := range f.Blocks {
		for _, in := range b.Instrs {
			switch x := in.(type) {
			case *ssa.FieldAddr:
				if x.X != recv {
					return "", false
				}
				fields = append(fields, fieldName(x.X.Type(), x.Field))
			case *ssa.UnOp, *ssa.BinOp, *ssa.If, *ssa.Return, *ssa.Jump, *ssa.Phi, *ssa.DebugRef:
			default:
				return "", false
			}
		}
	}
	if len(fields) != 1 {
		return "", false
	}
	// every non-zero return value must be the load of that field
	for _, b := range f.Blocks {
		if r, ok := b.Instrs[len(b.Instrs)-1].(*ssa.Return); ok && len(r.Results) == 1 {
			switch v := r.Results[0].(type) {
			case *ssa.Const:
			case *ssa.UnOp:
				if _, ok := v.X.(*ssa.FieldAddr); !ok || v.Op != token.MUL {
					return "", false
				}
			case *ssa.Phi:
			default:
				return "", false
			}
		}
	}
	res = getterInfo{fields[0], true}
	return res.field, true
}

func fieldName(t types.Type, i int) string {
	t = t.Underlying()
	if p, ok := t.(*types.Pointer); ok {
		t = p.Elem().Underlying()
	}
	return fname(t.(*types.Struct).Field(i))
}

// pure wrappers: the value is the argument, possibly re-boxed.
func (m *Module) pureWrapper(f *ssa.Function) (string, bool) {
	if f == nil {
		return "", false
	}
	if f.Pkg != nil && f.Pkg.Pkg.Path() == modPath+"/pkg/api" && f.Signature.Recv() == nil {
		switch f.Name() {
		case "String", "Int", "Int32", "UInt32", "Int64", "UInt64", "Bool", "FileMode":
			return f.Name(), true
		case "DupStringSlice", "DupStringMap", "ClearRemovalMarker":
			return f.Name(), true
		}
	}
	if f.Signature.Recv() != nil {
		switch f.Name() {
		case "GetValue", "Get":
			if f.Pkg != nil && f.Pkg.Pkg.Path() == modPath+"/pkg/api" {
				return f.Name(), true
			}
		case "ToOCI":
			return f.Name(), true
		}
	}
	if o := f.Origin(); o != nil && o.Pkg != nil && o.Pkg.Pkg.Path() == "slices" && o.Name() == "Clone" {
		return "Clone", true
	}
	return "", false
}

// ap computes the access path of a value.
func (m *Module) ap(v ssa.Value) AP {
	return m.apDepth(v, 0)
}

func (m *Module) apDepth(v ssa.Value, d int) AP {
	if d > 40 {
		return AP{Root: v}
	}
	switch x := v.(type) {
	case *ssa.FieldAddr:
		return m.apDepth(x.X, d+1).extend(fieldName(x.X.Type(), x.Field))
	case *ssa.Field:
		return m.apDepth(x.X, d+1).extend(fieldName(x.X.Type(), x.Field))
	case *ssa.UnOp:
		if x.Op == token.MUL {
			return m.apDepth(x.X, d+1)
		}
	case *ssa.IndexAddr:
		return m.apDepth(x.X, d+1).extend("[]")
	case *ssa.Index:
		return m.apDepth(x.X, d+1).extend("[]")
	case *ssa.Lookup:
		return m.apDepth(x.X, d+1).extend("{}")
	case *ssa.Extract:
		switch t := x.Tuple.(type) {
		case *ssa.Lookup:
			if x.Index == 0 {
				return m.apDepth(t, d+1)
			}
		case *ssa.Next:
			if r, ok := t.Iter.(*ssa.Range); ok {
				if x.Index == 1 {
					return m.apDepth(r.X, d+1).extend("{key}")
				}
				if x.Index == 2 {
					return m.apDepth(r.X, d+1).extend("{}")
				}
			}
		case *ssa.Call:
			return m.apDepth(t, d+1).extend(fmt.Sprintf("#%d", x.Index))
		case *ssa.TypeAssert:
			if x.Index == 0 {
				return m.apDepth(t.X, d+1)
			}
		}
	case *ssa.TypeAssert:
		if !x.CommaOk {
			return m.apDepth(x.X, d+1)
		}
	case *ssa.Slice:
		return m.apDepth(x.X, d+1)
	case *ssa.ChangeType:
		return m.apDepth(x.X, d+1)
	case *ssa.Convert:
		return m.apDepth(x.X, d+1)
	case *ssa.MakeInterface:
		return m.apDepth(x.X, d+1)
	case *ssa.ChangeInterface:
		return m.apDepth(x.X, d+1)
	case *ssa.Alloc:
		// a local copy of a struct value (`for _, e := range xs` with struct
		// elements): exactly one whole-value store, otherwise only read
		if x.Referrers() != nil {
			var whole *ssa.Store
			n := 0
			for _, r := range *x.Referrers() {
				if st, ok := r.(*ssa.Store); ok && st.Addr == ssa.Value(x) {
					whole = st
					n++
				}
			}
			if n == 1 {
				if _, isStruct := whole.Val.Type().Underlying().(*types.Struct); isStruct {
					if _, fromLoad := whole.Val.(*ssa.UnOp); fromLoad {
						return m.apDepth(whole.Val, d+1)
					}
				}
				// a parameter spilled to a heap cell because a closure captures it:
				// stored once (at entry), never written by the capturing closures
				if prm, isParam := whole.Val.(*ssa.Parameter); isParam && !capturedAndWritten(x) {
					return AP{Root: prm}
				}
			}
		}
	case *ssa.Call:
		f := m.callee(x.Common())
		if fld, ok := m.getterField(f); ok && len(x.Call.Args) == 1 {
			return m.apDepth(x.Call.Args[0], d+1).extend(fld)
		}
		if w, ok := m.pureWrapper(f); ok && len(x.Call.Args) >= 1 {
			return m.apDepth(x.Call.Args[0], d+1).wrap(w)
		}
		// a trivial accessor of this repository: one straight-line block returning a path below its only parameter
		if path, ok := m.pathGetter(f); ok && len(x.Call.Args) == 1 {
			a := m.apDepth(x.Call.Args[0], d+1)
			for _, st := range path {
				a = a.extend(st)
			}
			return a
		}
	}
	return AP{Root: v}
}

// pathGetter: f(recv) is a single block that returns recv.a.b.c (loads and field selections only).
func (m *Module) pathGetter(f *ssa.Function) ([]string, bool) {
	if f == nil || len(f.Blocks) != 1 || len(f.Params) != 1 || f.Signature.Results().Len() != 1 || f.Pkg == nil || !strings.HasPrefix(f.Pkg.Pkg.Path(), modPath) {
		return nil, false
	}
	if m.pathGet == nil {
		m.pathGet = map[*ssa.Function][]string{}
	}
	if p, ok := m.pathGet[f]; ok {
		return p, p != nil
	}
	m.pathGet[f] = nil
	for _, in := range f.Blocks[0].Instrs {
		switch in.(type) {
		case *ssa.FieldAddr, *ssa.Field, *ssa.UnOp, *ssa.Return, *ssa.DebugRef:
		default:
			return nil, false
		}
	}
	ret, ok := f.Blocks[0].Instrs[len(f.Blocks[0].Instrs)-1].(*ssa.Return)
	if !ok {
		return nil, false
	}
	a := m.apDepth(ret.Results[0], 0)
	if a.Root != ssa.Value(f.Params[0]) || len(a.Path) == 0 || len(a.Wrap) > 0 {
		return nil, false
	}
	m.pathGet[f] = a.Path
	return a.Path, true
}

// ---------------------------------------------------------------- conditions and guards

// Cond is a branch condition with the polarity under which a block executes.
type Cond struct {
	V   ssa.Value
	Pol bool
	If  *ssa.If
}

func lastIf(b *ssa.BasicBlock) *ssa.If {
	if len(b.Instrs) == 0 {
		return nil
	}
	iff, _ := b.Instrs[len(b.Instrs)-1].(*ssa.If)
	return iff
}

// controls returns the branch conditions on b's dominator chain under which b
// executes, nearest first.  A condition is included when exactly one
// successor edge of the dominating If leads to b (that successor dominates b
// and is entered only from the If).
func controls(b *ssa.BasicBlock) []Cond {
	var out []Cond
	for cur := b; cur != nil; cur = cur.Idom() {
		d := cur.Idom()
		if d == nil {
			break
		}
		iff := lastIf(d)
		if iff == nil {
			continue
		}
		t, f := d.Succs[0], d.Succs[1]
		if t == f {
			continue
		}
		if t.Dominates(b) && len(t.Preds) == 1 {
			out = append(out, Cond{iff.Cond, true, iff})
			out = append(out, phiCondFacts(Cond{iff.Cond, true, iff}, 0)...)
		} else if f.Dominates(b) && len(f.Preds) == 1 {
			out = append(out, Cond{iff.Cond, false, iff})
			out = append(out, phiCondFacts(Cond{iff.Cond, false, iff}, 0)...)
		}
	}
	return out
}

// phiCondFacts: a condition computed ahead of its test (`ok := a != nil && a.x == y; … if ok {`) is a
// phi of constants and one computed value. When the phi has the tested polarity although all its
// constant edges have the other one, the computed edge was taken: its value has that polarity and
// the conditions under which that edge is taken held.
func phiCondFacts(c Cond, depth int) []Cond {
	c = normCond(c)
	phi, ok := c.V.(*ssa.Phi)
	if !ok || depth > 3 {
		return nil
	}
	var val ssa.Value
	var pred *ssa.BasicBlock
	for i, e := range phi.Edges {
		if k, isC := e.(*ssa.Const); isC {
			if !isConstBool(k, !c.Pol) {
				return nil
			}
			continue
		}
		if val != nil {
			return nil
		}
		val, pred = e, phi.Block().Preds[i]
	}
	if val == nil {
		return nil
	}
	out := []Cond{{val, c.Pol, c.If}}
	out = append(out, phiCondFacts(Cond{val, c.Pol, c.If}, depth+1)...)
	if iff := lastIf(pred); iff != nil && pred.Succs[0] != pred.Succs[1] {
		ec := Cond{iff.Cond, pred.Succs[0] == phi.Block(), iff}
		out = append(out, ec)
		out = append(out, phiCondFacts(ec, depth+1)...)
	}
	out = append(out, controls(pred)...)
	return out
}

// flattenConds splits conjunctions produced by short-circuit evaluation: SSA
// already lowers && and || to control flow, so this only normalises negation.
func normCond(c Cond) Cond {
	for {
		u, ok := c.V.(*ssa.UnOp)
		if !ok || u.Op != token.NOT {
			return c
		}
		c = Cond{u.X, !c.Pol, c.If}
	}
}

// errResult returns the value holding the call's error result (last result).
func errResult(call *ssa.Call) ssa.Value {
	sig := call.Common().Signature()
	n := sig.Results().Len()
	if n == 0 || !isErrorType(sig.Results().At(n-1).Type()) {
		return nil
	}
	if n == 1 {
		return call
	}
	for _, r := range *call.Referrers() {
		if e, ok := r.(*ssa.Extract); ok && e.Index == n-1 {
			return e
		}
	}
	return nil
}

func isErrorType(t types.Type) bool {
	n, ok := types.Unalias(t).(*types.Named)
	return ok && n.Obj().Pkg() == nil && tname(n.Obj()) == "error"
}

func isNilConst(v ssa.Value) bool {
	c, ok := v.(*ssa.Const)
	return ok && c.IsNil()
}

// nilTest describes `v == nil` / `v != nil` tests of value v.
type nilTest struct {
	If      *ssa.If
	NilSucc *ssa.BasicBlock // successor taken when v == nil
	NonNil  *ssa.BasicBlock
}

func nilTestsOf(v ssa.Value) []nilTest {
	var out []nilTest
	if v == nil || v.Referrers() == nil {
		return nil
	}
	for _, r := range *v.Referrers() {
		b, ok := r.(*ssa.BinOp)
		if !ok || (b.Op != token.NEQ && b.Op != token.EQL) {
			continue
		}
		other := b.Y
		if b.Y == v {
			other = b.X
		}
		if !isNilConst(other) {
			continue
		}
		for _, rr := range *b.Referrers() {
			if iff, ok := rr.(*ssa.If); ok {
				s := iff.Block().Succs
				if b.Op == token.NEQ {
					out = append(out, nilTest{iff, s[1], s[0]})
				} else {
					out = append(out, nilTest{iff, s[0], s[1]})
				}
			}
		}
	}
	return out
}

// errOKBlocks returns the blocks entered when the call's error result is nil.
// Handles `if err := f(); err != nil`, `err = f(); if err != nil`, `== nil`
// forms, and error values merged through a phi are not followed (undecided).
func errOKBlocks(call *ssa.Call) []*ssa.BasicBlock {
	ev := errResult(call)
	var out []*ssa.BasicBlock
	for _, t := range nilTestsOf(ev) {
		if len(t.NilSucc.Preds) == 1 {
			out = append(out, t.NilSucc)
		}
	}
	return out
}

func errFailBlocks(call *ssa.Call) []*ssa.BasicBlock {
	ev := errResult(call)
	var out []*ssa.BasicBlock
	for _, t := range nilTestsOf(ev) {
		if len(t.NonNil.Preds) == 1 {
			out = append(out, t.NonNil)
		}
	}
	return out
}

// guardedBy reports whether site block b is dominated by the nil-error
// successor of call's error test (GUARD in DESIGN.md).
func guardedBy(call *ssa.Call, b *ssa.BasicBlock) bool {
	for _, okb := range errOKBlocks(call) {
		if okb.Dominates(b) {
			return true
		}
	}
	return false
}

// instrIndex returns the index of in within its block.
func instrIndex(in ssa.Instruction) int {
	for i, x := range in.Block().Instrs {
		if x == in {
			return i
		}
	}
	return -1
}

// domInstr reports whether instruction a dominates instruction b (a executes
// before b on every path to b).
func domInstr(a, b ssa.Instruction) bool {
	if a.Block() == b.Block() {
		return instrIndex(a) < instrIndex(b)
	}
	return a.Block().Dominates(b.Block())
}

// ---------------------------------------------------------------- post-dominators and path queries

type postDom struct {
	fn    *ssa.Function
	exits []*ssa.BasicBlock
	pdom  map[*ssa.BasicBlock]map[*ssa.BasicBlock]bool // pdom[b] = set of blocks that post-dominate b
}

// isExit: block ends in Return or Panic.
func isExit(b *ssa.BasicBlock) bool {
	if len(b.Instrs) == 0 {
		return false
	}
	switch b.Instrs[len(b.Instrs)-1].(type) {
	case *ssa.Return, *ssa.Panic:
		return true
	}
	return false
}

func (m *Module) postDoms(fn *ssa.Function) *postDom {
	if pd, ok := m.pdomCache[fn]; ok {
		return pd
	}
	pd := &postDom{fn: fn, pdom: map[*ssa.BasicBlock]map[*ssa.BasicBlock]bool{}}
	all := map[*ssa.BasicBlock]bool{}
	for _, b := range fn.Blocks {
		all[b] = true
		if isExit(b) {
			pd.exits = append(pd.exits, b)
		}
	}
	for _, b := range fn.Blocks {
		if isExit(b) {
			pd.pdom[b] = map[*ssa.BasicBlock]bool{b: true}
		} else {
			s := map[*ssa.BasicBlock]bool{}
			for k := range all {
				s[k] = true
			}
			pd.pdom[b] = s
		}
	}
	changed := true
	for changed {
		changed = false
		for i := len(fn.Blocks) - 1; i >= 0; i-- {
			b := fn.Blocks[i]
			if isExit(b) {
				continue
			}
			var inter map[*ssa.BasicBlock]bool
			for _, s := range b.Succs {
				if inter == nil {
					inter = map[*ssa.BasicBlock]bool{}
					for k := range pd.pdom[s] {
						inter[k] = true
					}
				} else {
					for k := range inter {
						if !pd.pdom[s][k] {
							delete(inter, k)
						}
					}
				}
			}
			if inter == nil {
				inter = map[*ssa.BasicBlock]bool{}
			}
			inter[b] = true
			if len(inter) != len(pd.pdom[b]) {
				pd.pdom[b] = inter
				changed = true
			}
		}
	}
	m.pdomCache[fn] = pd
	return pd
}

// postDominates: every path from b to a function exit passes through a.
func (m *Module) postDominates(a, b *ssa.BasicBlock) bool {
	return m.postDoms(b.Parent()).pdom[b][a]
}

// reachable: blocks reachable from `from` (following successors) without
// entering any block in `avoid`.  `from` itself is included.
func reachable(from *ssa.BasicBlock, avoid map[*ssa.BasicBlock]bool) map[*ssa.BasicBlock]bool {
	seen := map[*ssa.BasicBlock]bool{}
	var walk func(b *ssa.BasicBlock)
	walk = func(b *ssa.BasicBlock) {
		if seen[b] || avoid[b] {
			return
		}
		seen[b] = true
		for _, s := range b.Succs {
			walk(s)
		}
	}
	walk(from)
	return seen
}

// canReach reports whether there is a CFG path from a to b (a != b requires at least one edge).
func canReach(a, b *ssa.BasicBlock) bool {
	seen := map[*ssa.BasicBlock]bool{}
	var walk func(x *ssa.BasicBlock) bool
	walk = func(x *ssa.BasicBlock) bool {
		for _, s := range x.Succs {
			if s == b {
				return true
			}
			if !seen[s] {
				seen[s] = true
				if walk(s) {
					return true
				}
			}
		}
		return false
	}
	return walk(a)
}

// instrCanReach: is there a path from instruction a to instruction b?
func instrCanReach(a, b ssa.Instruction) bool {
	if a.Block() == b.Block() && instrIndex(a) < instrIndex(b) {
		return true
	}
	return canReach(a.Block(), b.Block())
}

// inLoop reports whether block b is on a cycle.
func inLoop(b *ssa.BasicBlock) bool { return canReach(b, b) }

// returnsOf lists the return instructions of fn.
func returnsOf(fn *ssa.Function) []*ssa.Return {
	var out []*ssa.Return
	for _, b := range fn.Blocks {
		if b == fn.Recover {
			continue // only reached after a recovered panic; none of the analysed functions recovers
		}
		if len(b.Instrs) > 0 {
			if r, ok := b.Instrs[len(b.Instrs)-1].(*ssa.Return); ok {
				out = append(out, r)
			}
		}
	}
	return out
}

// resolveReturn looks through the named-result spill that go/ssa creates for
// functions with defers and named results: a Return of loads of result allocs.
// It returns, for result i of return r, the set of values that may be returned.
func returnValues(r *ssa.Return, i int) []ssa.Value {
	v := r.Results[i]
	return valueSources(v, r, 0)
}

// valueSources expands phis and loads of single-function local allocs (named
// results, spilled locals) to the stored values that can reach `at`.
func valueSources(v ssa.Value, at ssa.Instruction, depth int) []ssa.Value {
	if depth > 6 {
		return []ssa.Value{v}
	}
	switch x := v.(type) {
	case *ssa.Phi:
		var out []ssa.Value
		seen := map[ssa.Value]bool{}
		for _, e := range x.Edges {
			for _, s := range valueSources(e, at, depth+1) {
				if !seen[s] {
					seen[s] = true
					out = append(out, s)
				}
			}
		}
		return out
	case *ssa.UnOp:
		if x.Op == token.MUL {
			if al, ok := x.X.(*ssa.Alloc); ok {
				var out []ssa.Value
				seen := map[ssa.Value]bool{}
				stores := 0
				var allStores []ssa.Instruction
				for _, r := range *al.Referrers() {
					if st, ok := r.(*ssa.Store); ok && st.Addr == al {
						allStores = append(allStores, st)
					}
				}
				for _, r := range *al.Referrers() {
					if st, ok := r.(*ssa.Store); ok && st.Addr == al {
						stores++
						if !reachesUnkilled(st, x, allStores) {
							continue
						}
						for _, s := range valueSources(st.Val, st, depth+1) {
							if !seen[s] {
								seen[s] = true
								out = append(out, s)
							}
						}
					}
				}
				if stores > 0 && len(out) > 0 {
					return out
				}
			}
		}
	}
	return []ssa.Value{v}
}

// ---------------------------------------------------------------- misc value helpers

func constInt(v ssa.Value) (int64, bool) {
	c, ok := v.(*ssa.Const)
	if !ok || c.Value == nil || c.Value.Kind() != constant.Int {
		return 0, false
	}
	return c.Int64(), true
}

func constString(v ssa.Value) (string, bool) {
	c, ok := v.(*ssa.Const)
	if !ok || c.Value == nil || c.Value.Kind() != constant.String {
		return "", false
	}
	return constant.StringVal(c.Value), true
}

func isBuiltinCall(v ssa.Value, name string) (*ssa.Call, bool) {
	c, ok := v.(*ssa.Call)
	if !ok {
		return nil, false
	}
	b, ok := c.Call.Value.(*ssa.Builtin)
	if !ok || b.Name() != name {
		return nil, false
	}
	return c, true
}

// valEq: structural equality of pure expression trees (go/ssa has no CSE).
func (m *Module) valEq(a, b ssa.Value) bool {
	return m.valEqD(a, b, 0)
}

func (m *Module) valEqD(a, b ssa.Value, d int) bool {
	if a == b {
		return true
	}
	if d > 12 || a == nil || b == nil {
		return false
	}
	switch x := a.(type) {
	case *ssa.Const:
		y, ok := b.(*ssa.Const)
		if !ok {
			return false
		}
		if x.Value == nil || y.Value == nil {
			return x.Value == nil && y.Value == nil && types.Identical(x.Type(), y.Type())
		}
		return constant.Compare(x.Value, token.EQL, y.Value)
	case *ssa.Call:
		y, ok := b.(*ssa.Call)
		if !ok {
			return false
		}
		fa, fb := m.callee(x.Common()), m.callee(y.Common())
		if fa == nil || fa != fb || len(x.Call.Args) != len(y.Call.Args) {
			if bx, ok := x.Call.Value.(*ssa.Builtin); ok {
				if by, ok := y.Call.Value.(*ssa.Builtin); ok && bx.Name() == by.Name() && (bx.Name() == "len" || bx.Name() == "cap") {
					return m.valEqD(x.Call.Args[0], y.Call.Args[0], d+1)
				}
			}
			return false
		}
		if _, isGetter := m.getterField(fa); !isGetter {
			if _, pure := m.pureWrapper(fa); !pure {
				return false
			}
		}
		for i := range x.Call.Args {
			if !m.valEqD(x.Call.Args[i], y.Call.Args[i], d+1) {
				return false
			}
		}
		return true
	case *ssa.UnOp:
		y, ok := b.(*ssa.UnOp)
		return ok && x.Op == y.Op && m.valEqD(x.X, y.X, d+1)
	case *ssa.BinOp:
		y, ok := b.(*ssa.BinOp)
		return ok && x.Op == y.Op && m.valEqD(x.X, y.X, d+1) && m.valEqD(x.Y, y.Y, d+1)
	case *ssa.IndexAddr:
		y, ok := b.(*ssa.IndexAddr)
		return ok && m.valEqD(x.X, y.X, d+1) && m.valEqD(x.Index, y.Index, d+1)
	case *ssa.Index:
		y, ok := b.(*ssa.Index)
		return ok && m.valEqD(x.X, y.X, d+1) && m.valEqD(x.Index, y.Index, d+1)
	case *ssa.FieldAddr:
		y, ok := b.(*ssa.FieldAddr)
		return ok && x.Field == y.Field && m.valEqD(x.X, y.X, d+1)
	case *ssa.Field:
		y, ok := b.(*ssa.Field)
		return ok && x.Field == y.Field && m.valEqD(x.X, y.X, d+1)
	case *ssa.Convert:
		y, ok := b.(*ssa.Convert)
		return ok && types.Identical(x.Type(), y.Type()) && m.valEqD(x.X, y.X, d+1)
	case *ssa.ChangeType:
		y, ok := b.(*ssa.ChangeType)
		return ok && types.Identical(x.Type(), y.Type()) && m.valEqD(x.X, y.X, d+1)
	case *ssa.Extract:
		y, ok := b.(*ssa.Extract)
		return ok && x.Index == y.Index && m.valEqD(x.Tuple, y.Tuple, d+1)
	}
	return false
}

// usesValue reports whether instruction in has v among its operands.
func usesValue(in ssa.Instruction, v ssa.Value) bool {
	var ops [12]*ssa.Value
	for _, op := range in.Operands(ops[:0]) {
		if *op == v {
			return true
		}
	}
	return false
}

// derivedFrom: does value v depend (through pure data flow) on src?
func derivedFrom(v, src ssa.Value) bool {
	seen := map[ssa.Value]bool{}
	var walk func(x ssa.Value) bool
	walk = func(x ssa.Value) bool {
		if x == src {
			return true
		}
		if x == nil || seen[x] {
			return false
		}
		seen[x] = true
		in, ok := x.(ssa.Instruction)
		if !ok {
			return false
		}
		if al, ok := x.(*ssa.Alloc); ok {
			// a local composite: depends on everything stored into it
			var stored func(addr ssa.Value, d int) bool
			stored = func(addr ssa.Value, d int) bool {
				if d > 3 || addr.Referrers() == nil {
					return false
				}
				for _, r := range *addr.Referrers() {
					switch y := r.(type) {
					case *ssa.Store:
						if y.Addr == addr && walk(y.Val) {
							return true
						}
					case *ssa.FieldAddr:
						if y.X == addr && stored(y, d+1) {
							return true
						}
					case *ssa.IndexAddr:
						if y.X == addr && stored(y, d+1) {
							return true
						}
					}
				}
				return false
			}
			return stored(al, 0)
		}
		var ops [12]*ssa.Value
		for _, op := range in.Operands(ops[:0]) {
			if *op != nil && walk(*op) {
				return true
			}
		}
		return false
	}
	return walk(v)
}

// fieldStores lists the stores in fn into field `field` of struct type named
// (pkg.typ), whatever the base pointer.
type fieldStore struct {
	Store *ssa.Store
	Addr  *ssa.FieldAddr
}

func (m *Module) fieldStores(fn *ssa.Function, owner *types.Named, field string) []fieldStore {
	var out []fieldStore
	for _, b := range fn.Blocks {
		for _, in := range b.Instrs {
			st, ok := in.(*ssa.Store)
			if !ok {
				continue
			}
			fa, ok := st.Addr.(*ssa.FieldAddr)
			if !ok {
				continue
			}
			if isFieldOf(fa, owner, field) {
				out = append(out, fieldStore{st, fa})
			}
		}
	}
	return out
}

func isFieldOf(fa *ssa.FieldAddr, owner *types.Named, field string) bool {
	pt, ok := fa.X.Type().Underlying().(*types.Pointer)
	if !ok {
		return false
	}
	n, ok := types.Unalias(pt.Elem()).(*types.Named)
	if !ok || n.Obj() != owner.Obj() {
		return false
	}
	return fieldName(fa.X.Type(), fa.Field) == field
}

// fieldReads lists loads (and address uses other than stores) of owner.field in fn.
func (m *Module) fieldAddrs(fn *ssa.Function, owner *types.Named, field string) []*ssa.FieldAddr {
	var out []*ssa.FieldAddr
	for _, b := range fn.Blocks {
		for _, in := range b.Instrs {
			if fa, ok := in.(*ssa.FieldAddr); ok && isFieldOf(fa, owner, field) {
				out = append(out, fa)
			}
		}
	}
	return out
}

// funcKey gives a stable, position-free name for a function.
func funcKey(f *ssa.Function) string {
	if f == nil {
		return "?"
	}
	if f.Parent() != nil {
		// anonymous function: parent name + ordinal among siblings
		idx := 0
		for i, a := range f.Parent().AnonFuncs {
			if a == f {
				idx = i
			}
		}
		return fmt.Sprintf("%s$%d", funcKey(f.Parent()), idx+1)
	}
	if r := recvNamed(f); r != nil {
		return r.Obj().Name() + "." + f.Name()
	}
	return f.Name()
}

func sortedKeys[V any](m map[string]V) []string {
	var ks []string
	for k := range m {
		ks = append(ks, k)
	}
	sort.Strings(ks)
	return ks
}

// reachesUnkilled: there is a path from instruction from to instruction to
// that does not pass through any other instruction in kills.
func reachesUnkilled(from, to ssa.Instruction, kills []ssa.Instruction) bool {
	isKill := map[ssa.Instruction]bool{}
	for _, k := range kills {
		if k != from {
			isKill[k] = true
		}
	}
	// scan the rest of from's block
	scan := func(b *ssa.BasicBlock, start int) (found, killed bool) {
		for i := start; i < len(b.Instrs); i++ {
			in := b.Instrs[i]
			if in == to {
				return true, false
			}
			if isKill[in] {
				return false, true
			}
		}
		return false, false
	}
	if f, k := scan(from.Block(), instrIndex(from)+1); f {
		return true
	} else if k {
		return false
	}
	seen := map[*ssa.BasicBlock]bool{}
	var walk func(b *ssa.BasicBlock) bool
	walk = func(b *ssa.BasicBlock) bool {
		if seen[b] {
			return false
		}
		seen[b] = true
		f, k := scan(b, 0)
		if f {
			return true
		}
		if k {
			return false
		}
		for _, s := range b.Succs {
			if walk(s) {
				return true
			}
		}
		return false
	}
	for _, s := range from.Block().Succs {
		if walk(s) {
			return true
		}
	}
	return false
}

// calleeCHA resolves like callee, and additionally resolves an interface
// method call when the interface is declared in the repository and exactly one
// repository type implements it (class-hierarchy analysis restricted to repo types).
func (m *Module) calleeCHA(c *ssa.CallCommon) *ssa.Function {
	if f := m.callee(c); f != nil {
		return f
	}
	if !c.IsInvoke() {
		return nil
	}
	it := c.Value.Type()
	n, ok := types.Unalias(it).(*types.Named)
	if !ok || n.Obj().Pkg() == nil || !strings.HasPrefix(n.Obj().Pkg().Path(), modPath) {
		return nil
	}
	iface, ok := n.Underlying().(*types.Interface)
	if !ok {
		return nil
	}
	if m.chaMemo == nil {
		m.chaMemo = map[string]*ssa.Function{}
	}
	key := n.String() + "." + c.Method.Name()
	if f, ok := m.chaMemo[key]; ok {
		return f
	}
	var found []*ssa.Function
	for path, sp := range m.SSA {
		if !strings.HasPrefix(path, modPath) {
			continue
		}
		sc := sp.Pkg.Scope()
		for _, name := range sc.Names() {
			tn, ok := sc.Lookup(name).(*types.TypeName)
			if !ok || tn.IsAlias() {
				continue
			}
			nt, ok := tn.Type().(*types.Named)
			if !ok {
				continue
			}
			if _, isIface := nt.Underlying().(*types.Interface); isIface {
				continue
			}
			for _, t := range []types.Type{nt, types.NewPointer(nt)} {
				if types.Implements(t, iface) {
					sel := m.Prog.MethodSets.MethodSet(t).Lookup(c.Method.Pkg(), c.Method.Name())
					if sel != nil {
						if fn := m.Prog.MethodValue(sel); fn != nil {
							found = append(found, fn)
						}
					}
					break
				}
			}
		}
	}
	var res *ssa.Function
	if len(found) == 1 {
		res = found[0]
	}
	m.chaMemo[key] = res
	return res
}

// capturedAndWritten: some closure capturing the cell al stores into it.
func capturedAndWritten(al *ssa.Alloc) bool {
	for _, r := range *al.Referrers() {
		mc, ok := r.(*ssa.MakeClosure)
		if !ok {
			continue
		}
		fn, ok := mc.Fn.(*ssa.Function)
		if !ok {
			return true
		}
		for i, b := range mc.Bindings {
			if b != ssa.Value(al) || i >= len(fn.FreeVars) {
				continue
			}
			fv := fn.FreeVars[i]
			if fv.Referrers() == nil {
				continue
			}
			for _, rr := range *fv.Referrers() {
				if st, ok := rr.(*ssa.Store); ok && st.Addr == ssa.Value(fv) {
					return true
				}
			}
		}
	}
	return false
}

func constantFloat(c *ssa.Const) (float64, bool) {
	if c.Value == nil {
		return 0, false
	}
	switch c.Value.Kind() {
	case constant.Float, constant.Int:
		f, _ := constant.Float64Val(constant.ToFloat(c.Value))
		return f, true
	}
	return 0, false
}

// mapHasCall: v is a call of a tiny membership method/function `has(m, k) bool { _, ok := m[k]; return ok }`;
// returns the map and key operands at the call site.
func (m *Module) mapHasCall(v ssa.Value) (ssa.Value, ssa.Value, bool) {
	call, ok := v.(*ssa.Call)
	if !ok || len(call.Call.Args) != 2 {
		return nil, nil, false
	}
	g := m.callee(call.Common())
	if g == nil || len(g.Blocks) == 0 || len(g.Params) != 2 || g.Signature.Results().Len() != 1 {
		return nil, nil, false
	}
	rets := returnsOf(g)
	for _, r := range rets {
		for _, rv := range returnValues(r, 0) {
			ex, ok := rv.(*ssa.Extract)
			if !ok || ex.Index != 1 {
				return nil, nil, false
			}
			lk, ok := ex.Tuple.(*ssa.Lookup)
			if !ok || !lk.CommaOk || lk.X != ssa.Value(g.Params[0]) || lk.Index != ssa.Value(g.Params[1]) {
				return nil, nil, false
			}
		}
	}
	if len(rets) == 0 {
		return nil, nil, false
	}
	return call.Call.Args[0], call.Call.Args[1], true
}
