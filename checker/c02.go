package main

import (
	"fmt"
	"go/token"
	"go/types"
	"strings"

	"golang.org/x/tools/go/ssa"
)

func init() {
	register("C02", &propInfo{
		run: func(c *Ctx) {
			ma := newMergeAnalysis(c)
			ma.collectPairs()
			ma.ruleR8(c)
			ma.ruleR8u(c)
			ma.ruleR9(c)
			ma.ruleR11(c, "bc") // the collected list an ownership release refers to is not corrupted by the filters
			ma.ruleR7f(c)
			ruleR9m(c)
			ma.ruleR1dual(c)
			ruleR2R3(c)
		},
		explanation: "Decides that ownership claims can only arise from what the plugin itself set, and that removal markers release ownership: every claim call is controlled by a presence test / range over the plugin's own value of the claimed item and by nothing derived from accumulated state; every claim is followed by a write of its own item (no claims on the side); for every removable kind a clear of the marked key exists whose execution depends only on the key being marked (not on it being set again), and which cannot run after a claim of the same kind; the marker functions agree on one 1-byte marker; claims are exclusive per slot and distinct items use distinct slots (no false conflicts between disjoint items). The key of every keyed claim is known not to be a removal marker where the claim runs (a claimed marker is a phantom item nothing releases). The filters leave the collected list an ownership release refers to intact.",
		notDecided: []string{
			"that a request with disjoint writes succeeds for reasons outside the merge (plugin errors, transport)",
			"the behaviour of the generator on the result (C03/C13)",
		},
	})
}

// collectPairs computes the claim/item association without recording R1 obligations.
func (ma *mergeAnalysis) collectPairs() {
	tmp := &Ctx{Repo: "", M: ma.m}
	ma.ruleR1(tmp)
}

// paramPartition: a plugin map parameter from which removal-marked keys are
// deleted in a loop that dominates block at behaves as the unmarked partition.
func (mf *mergeFn) paramPartition(coll ssa.Value, at *ssa.BasicBlock) int {
	p, ok := coll.(*ssa.Parameter)
	if !ok || !mf.plugin[p] {
		return 0
	}
	for _, b := range mf.fn.Blocks {
		for _, in := range b.Instrs {
			call, ok := in.(*ssa.Call)
			if !ok {
				continue
			}
			if bi, ok := call.Call.Value.(*ssa.Builtin); !ok || bi.Name() != "delete" || call.Call.Args[0] != coll {
				continue
			}
			if mf.markedPol(call.Call.Args[1], b) == 1 {
				hdr := loopHeader(b)
				if hdr != nil && hdr.Dominates(at) && !canReach(at, b) {
					return -1
				}
			}
		}
	}
	return 0
}

func (ma *mergeAnalysis) ruleR9(c *Ctx) {
	m := c.M
	c.rule("R9", "removal releases ownership: for every removable kind there is a clear of the removal-marked key whose execution depends only on the key being marked (and present in the reply) — not on the key also being set again in the same response — and no claim of that kind can run before it", 5)
	_, clears := ledgerFamily(m)
	used := map[*ssa.Function]int{}
	for _, mf := range ma.fns {
		// functions that interpret removal markers must clear
		hasMarked := false
		for _, ci := range calls(mf.fn) {
			if call, ok := ci.(*ssa.Call); ok {
				if _, ok := mf.isMarkedTest(call); ok {
					hasMarked = true
				}
			}
		}
		if hasMarked && len(mf.clears) == 0 {
			c.violate("R9", mf.fn.Name()+"/clear", mf.fn.Pos(), fmt.Sprintf("%s releases the ownership of removed keys", mf.fn.Name()),
				"the function interprets removal markers but never clears ownership: removing an item does not release the earlier plugin's claim")
		}
		for _, cc := range mf.clears {
			used[cc.ledger]++
			key := mf.fn.Name() + "/clear"
			what := fmt.Sprintf("%s in %s runs for every removal-marked key, independent of re-setting", cc.name(), mf.fn.Name())
			bad := ""
			b := cc.call.Block()
			if cc.key != nil {
				// (1) key is marked-derived
				markedKey := mf.elemMarked(cc.key, b) == 1
				for _, cd := range controls(b) {
					cd = normCond(cd)
					if ex, ok := cd.V.(*ssa.Extract); ok && ex.Index == 1 && cd.Pol {
						if lk, ok := ex.Tuple.(*ssa.Lookup); ok && m.valEq(lk.Index, cc.key) {
							if p, ok := mf.partition(lk.X); ok && p == 1 {
								markedKey = true
							}
						}
					}
				}
				if !markedKey {
					bad = "the key cleared is not known to be removal-marked (neither tested by the marker test nor found in the set of marked keys)"
				}
			} else {
				// unkeyed (args): controlled by a test of the plugin's own value only
				okc := false
				for _, cd := range mf.itemControls(b) {
					if mf.condProv(cd)&tPlugin != 0 {
						okc = true
					}
				}
				if !okc {
					bad = "the clear is not controlled by the plugin's removal marker"
				}
				// the only length condition allowed is the entry guard (empty => nothing to do)
				for _, cd := range mf.itemControls(b) {
					n := normCond(cd)
					bo, ok := n.V.(*ssa.BinOp)
					if !ok {
						continue
					}
					lenCall, isLen := isBuiltinCall(bo.X, "len")
					if !isLen {
						continue
					}
					if _, isStr := lenCall.Call.Args[0].Type().Underlying().(*types.Basic); isStr {
						continue // len(args[0]) == 0 is the marker test (an empty first argument), not a length of the list
					}
					other := cd.If.Block().Succs[0]
					if cd.Pol {
						other = cd.If.Block().Succs[1]
					}
					k, isC := constInt(bo.Y)
					entryGuard := isC && k == 0 && isExit(other) && len(other.Instrs) <= 3
					if !entryGuard {
						bad = fmt.Sprintf("the clear additionally depends on the length of the plugin's list (test at %s): a response that carries only the removal marker does not release the earlier plugin's ownership", c.pos(cd.If.Pos()))
					}
				}
			}
			// (2) not controlled by membership in / iteration over the unmarked part
			for _, cd := range mf.itemControls(b) {
				cd = normCond(cd)
				var coll ssa.Value
				if ex, ok := cd.V.(*ssa.Extract); ok {
					switch t := ex.Tuple.(type) {
					case *ssa.Next:
						if r, ok := t.Iter.(*ssa.Range); ok {
							coll = r.X
						}
					case *ssa.Lookup:
						if cd.Pol && ex.Index == 1 {
							coll = t.X
						}
					}
				}
				if coll == nil {
					continue
				}
				pol := 0
				if p, ok := mf.partition(coll); ok {
					pol = p
				} else {
					pol = mf.paramPartition(coll, cd.If.Block())
				}
				if pol == -1 && bad == "" {
					bad = fmt.Sprintf("the clear only runs for keys that are also among the values set in the same response (controlled at %s by the unmarked part of the plugin's adjustment): a lone removal does not release the earlier plugin's ownership", c.pos(cd.If.Pos()))
				}
			}
			// (3) no claim of the same slot can run before it
			if bad == "" {
				for _, cl := range mf.claims {
					if sameSlot(m, cl.ledger, cc.ledger) && instrCanReach(cl.call, cc.call) {
						bad = fmt.Sprintf("a claim of the same kind (%s at %s) can run before this clear: claims are evaluated before all removals are applied", cl.name(), c.pos(cl.call.Pos()))
					}
				}
			}
			c.ok("R9", key, cc.call.Pos(), bad == "", what, bad)
		}
	}
	// R9p: the split of the plugin's list into removals and sets is complete
	ma.ruleR9p(c)
	for _, cf := range clears {
		c.ok("R9", "used/"+cf.Name(), cf.Pos(), used[cf] > 0, fmt.Sprintf("clear %s is used by the merge code", cf.Name()),
			"the clear function is never called: removal of this kind never releases ownership")
	}
}

// sameSlot: claim wrapper a and clear wrapper b operate on the same ledger slot.
func sameSlot(m *Module, a, b *ssa.Function) bool {
	sa, sb := wrapperSlot(m, a), wrapperSlot(m, b)
	return sa != "" && sa == sb
}

func wrapperSlot(m *Module, w *ssa.Function) string {
	if rn := recvNamed(w); rn != nil && tname(rn.Obj()) == "owners" {
		if s := ownersSlots(m, w); len(s) == 1 {
			return s[0]
		}
		return ""
	}
	for _, ci := range calls(w) {
		g := m.callee(ci.Common())
		if rn := recvNamed(g); rn != nil && tname(rn.Obj()) == "owners" {
			if s := ownersSlots(m, g); len(s) == 1 {
				return s[0]
			}
		}
	}
	return ""
}

// ruleR1dual: no claims on the side.
func (ma *mergeAnalysis) ruleR1dual(c *Ctx) {
	c.rule("R1d", "no claim on the side: every claim call is followed, on its success edge (or after its claim-all loop), by a write of its own item's value", 49)
	ord := map[string]int{}
	for _, mf := range ma.fns {
		for _, cc := range mf.claims {
			base := mf.fn.Name() + "/" + cc.name()
			ord[base]++
			key := base
			if ord[base] > 1 {
				key = fmt.Sprintf("%s#%d", base, ord[base])
			}
			n := 0
			for _, w := range mf.writes {
				if !r1Spaces[w.space] || mf.classify(w) != "value" {
					continue
				}
				if g := innermostGuard(mf.claimGuards(w.block())); g == cc {
					n++
					continue
				}
				if w.isAppnd {
					var coll ssa.Value
					if len(w.elems) == 0 {
						if ap, ok := isBuiltinCall(w.val, "append"); ok && len(ap.Call.Args) > 1 {
							coll = ap.Call.Args[1]
						}
					} else {
						coll, _ = rangeOf(w.elems[0])
					}
					if coll != nil && mf.claimAllLoop(coll, w.block()) == cc {
						n++
					}
				}
			}
			c.ok("R1d", key, cc.call.Pos(), n > 0, fmt.Sprintf("%s in %s is followed by a write of its item", cc.name(), mf.fn.Name()),
				"the claim guards no value write: the plugin becomes owner of an item it did not set, and a later plugin setting it is refused")
		}
	}
}

// ruleR9m: the marker convention.
func ruleR9m(c *Ctx) {
	m := c.M
	c.rule("R9m", "marker convention: MarkForRemoval prepends one constant 1-byte marker; IsMarkedForRemoval and ClearRemovalMarker test exactly that byte at index 0 and strip exactly its length; the element methods delegate with their key field", 6)
	mark := m.fn(pkgAPI, "MarkForRemoval")
	marker := ""
	for _, b := range mark.Blocks {
		for _, in := range b.Instrs {
			if bo, ok := in.(*ssa.BinOp); ok && bo.Op == token.ADD {
				if s, ok := constString(bo.X); ok && bo.Y == ssa.Value(mark.Params[0]) {
					marker = s
				}
			}
		}
	}
	c.ok("R9m", "MarkForRemoval", mark.Pos(), len(marker) == 1, "MarkForRemoval returns a constant 1-byte marker followed by the key",
		fmt.Sprintf("marker is %q", marker))
	if len(marker) != 1 {
		return
	}
	for _, name := range []string{"IsMarkedForRemoval", "ClearRemovalMarker"} {
		f := m.fn(pkgAPI, name)
		key := f.Params[0]
		// ClearRemovalMarker may be written as "the key IsMarkedForRemoval returns"
		if name == "ClearRemovalMarker" {
			isM := m.fn(pkgAPI, "IsMarkedForRemoval")
			deleg, other := 0, 0
			for _, r := range returnsOf(f) {
				for _, v := range returnValues(r, 0) {
					if ex, ok := v.(*ssa.Extract); ok && ex.Index == 0 {
						if call, ok := ex.Tuple.(*ssa.Call); ok && m.callee(call.Common()) == isM && call.Call.Args[0] == ssa.Value(key) {
							deleg++
							continue
						}
					}
					other++
				}
			}
			if deleg > 0 && other == 0 {
				c.add("R9m", name, f.Pos(), Discharged, name+" returns the key that IsMarkedForRemoval (checked above) computes for its argument", "")
				continue
			}
		}
		var cmpOK, sliceOK bool
		var strip ssa.Value
		for _, b := range f.Blocks {
			for _, in := range b.Instrs {
				switch x := in.(type) {
				case *ssa.BinOp:
					if x.Op == token.NEQ || x.Op == token.EQL {
						var base, index ssa.Value
						switch lk := x.X.(type) {
						case *ssa.Lookup:
							base, index = lk.X, lk.Index
						case *ssa.Index:
							base, index = lk.X, lk.Index
						}
						if base == ssa.Value(key) {
							if idx, ok := constInt(index); ok && idx == 0 {
								if cv, ok := constInt(x.Y); ok && byte(cv) == marker[0] {
									cmpOK = true
								}
							}
						}
					}
				case *ssa.Slice:
					if x.X == ssa.Value(key) && x.High == nil {
						if lo, ok := constInt(x.Low); ok && int(lo) == len(marker) {
							sliceOK = true
							strip = x
						}
					}
				case *ssa.Call:
					// the same test and strip spelled with the strings package
					if g := m.callee(x.Common()); g != nil && len(x.Call.Args) == 2 && x.Call.Args[0] == ssa.Value(key) {
						if pfx, ok := constString(x.Call.Args[1]); ok && pfx == marker {
							switch g.String() {
							case "strings.HasPrefix":
								cmpOK = true
							case "strings.TrimPrefix":
								sliceOK = true
								strip = x
							}
						}
					}
				}
			}
		}
		bad := ""
		if !cmpOK {
			bad = "does not compare byte 0 of the key with the marker byte"
		} else if !sliceOK {
			bad = "does not strip exactly the marker's length"
		} else {
			// the stripped key is returned only on the path where the byte matched; other returns give the key unchanged (or empty)
			for _, r := range returnsOf(f) {
				for _, v := range returnValues(r, 0) {
					isStrip := v == strip
					if len(r.Results) == 2 {
						flag, isC := r.Results[1].(*ssa.Const)
						if isC && flag.Value != nil {
							tv := flag.Value.String() == "true"
							if tv != isStrip {
								bad = fmt.Sprintf("return at %s: marked flag %v does not match stripping", c.pos(r.Pos()), tv)
							}
						}
					}
					if !isStrip {
						if _, isEmpty := constString(v); !isEmpty && v != ssa.Value(key) {
							bad = fmt.Sprintf("return at %s yields something other than the key, the stripped key or \"\"", c.pos(r.Pos()))
						}
					}
				}
			}
		}
		c.ok("R9m", name, f.Pos(), bad == "", name+" agrees with MarkForRemoval on marker byte and length", bad)
	}
	n := 0
	for _, tn := range []string{"Mount", "LinuxDevice", "KeyValue"} {
		mt := m.methodOpt(pkgAPI, tn, "IsMarkedForRemoval")
		if mt == nil {
			c.violate("R9m", tn+".IsMarkedForRemoval", token.NoPos, tn+" has a removal-marker test", "method not found")
			continue
		}
		n++
		kf := markedKeyField(m, mt)
		c.ok("R9m", tn+".IsMarkedForRemoval", mt.Pos(), isMarkedFn(m, mt, 0) && kf != "", fmt.Sprintf("%s.IsMarkedForRemoval delegates to IsMarkedForRemoval with its key field (%s)", tn, kf),
			"the method does not return the results of IsMarkedForRemoval on one of its own fields")
	}
}

// ruleR9p: every removal-marked element of the plugin's response is recorded as a removal
// and every other element as a set — whatever else the response contains and in whatever order.
func (ma *mergeAnalysis) ruleR9p(c *Ctx) {
	c.rule("R9p", "complete partition: where a merge function splits the plugin's list into removals and sets, the recording of an element as a removal depends only on its own removal marker (and the recording as a set only on the absence of the marker) — not on what else the same response contains or on the order of its entries", 8)
	for _, mf := range ma.fns {
		seen := map[ssa.Instruction]bool{}
		ord := 0
		for _, b := range mf.fn.Blocks {
			for _, in := range b.Instrs {
				var site ssa.Instruction
				var elem, key ssa.Value
				switch x := in.(type) {
				case *ssa.MapUpdate:
					if _, local := x.Map.(*ssa.MakeMap); local {
						site, elem, key = x, x.Value, x.Key
					}
				case *ssa.Call:
					if ap, ok := isBuiltinCall(x, "append"); ok && len(ap.Call.Args) == 2 {
						if _, local := mf.insertions(x); local {
							if el := mf.appendedElems(ap.Call.Args[1]); len(el) == 1 {
								site, elem = x, el[0]
							}
						}
					}
				}
				if site == nil || seen[site] {
					continue
				}
				pol := mf.markedPol(elem, b)
				if pol == 0 && key != nil {
					pol = mf.markedPol(key, b)
				}
				if pol == 0 {
					continue // not part of a removal/set split
				}
				seen[site] = true
				ord++
				// every control other than the marker test must be the iteration over the plugin's list or an entry guard on it
				bad := ""
				for _, cd := range mf.itemControls(b) {
					n := normCond(cd)
					if ex, ok := n.V.(*ssa.Extract); ok && ex.Index == 1 {
						if call, ok := ex.Tuple.(*ssa.Call); ok {
							if _, isM := mf.isMarkedTest(call); isM {
								continue
							}
						}
						if lk, ok := ex.Tuple.(*ssa.Lookup); ok {
							if _, local := mf.insertions(lk.X); local {
								if p, ok := mf.partition(lk.X); ok && p == pol {
									continue // de-duplication within the same part of the split (e.g. an order list next to the set)
								}
								bad = fmt.Sprintf("the recording depends on whether the key is (not) already in another part of the split (test at %s): with the entries in another order, or a set and a removal of the same key in one response, the removal or the set is lost", c.pos(cd.If.Pos()))
								continue
							}
						}
					}
					t := mf.condProv(cd)
					if t&(tAcc|tStaged|tOwn) != 0 {
						bad = fmt.Sprintf("the recording depends on accumulated state (test at %s)", c.pos(cd.If.Pos()))
					}
				}
				kind := map[int]string{1: "removal", -1: "set"}[pol]
				c.ok("R9p", fmt.Sprintf("%s/%s#%d", mf.fn.Name(), kind, ord), site.Pos(), bad == "", fmt.Sprintf("%s records every %s of the plugin's response", mf.fn.Name(), kind), bad)
			}
		}
	}
}

// ---------------------------------------------------------------- R7f: set keys and lookup keys agree

// keyDesc names what a string key stands for: "Mount.Destination", "KeyValue.Key", "mapkey", …
// ("?" when it cannot be told).
func (mf *mergeFn) keyDesc(v ssa.Value, depth int) string {
	m := mf.m
	if depth > 5 || v == nil {
		return "?"
	}
	switch x := v.(type) {
	case *ssa.Extract:
		if call, ok := x.Tuple.(*ssa.Call); ok && x.Index == 0 {
			g := m.callee(call.Common())
			if g == nil {
				return "?"
			}
			if subj, ok := isMarkedTestCall(m, call); ok {
				if g.Signature.Recv() != nil {
					if n := ptrNamed(subj.Type()); n != nil {
						if kf := markedKeyField(m, g); kf != "" {
							return n.Obj().Name() + "." + kf
						}
					}
					return "?"
				}
				return mf.keyDesc(subj, depth+1)
			}
			if g == m.fnOpt(pkgAdapt, "splitEnvVar") {
				return "KeyValue.Key" // the name part of a NAME=value string
			}
			return "?"
		}
		if nx, ok := x.Tuple.(*ssa.Next); ok && x.Index == 1 {
			if rg, ok := nx.Iter.(*ssa.Range); ok {
				if _, isMap := rg.X.Type().Underlying().(*types.Map); isMap {
					return "mapkey"
				}
			}
		}
		return "?"
	case *ssa.Call:
		if g := m.callee(x.Common()); g != nil && g == m.fnOpt(pkgAPI, "ClearRemovalMarker") && len(x.Call.Args) == 1 {
			return mf.keyDesc(x.Call.Args[0], depth+1)
		}
		if g := m.callee(x.Common()); g != nil && g == m.fnOpt(pkgAPI, "MarkForRemoval") && len(x.Call.Args) == 1 {
			return mf.keyDesc(x.Call.Args[0], depth+1)
		}
	case *ssa.Phi:
		d := ""
		for _, e := range x.Edges {
			ed := mf.keyDesc(e, depth+1)
			if d != "" && ed != d {
				return "?"
			}
			d = ed
		}
		if d != "" {
			return d
		}
		return "?"
	}
	// a key taken from a local list of keys: what was put on that list
	if coll, _ := rangeOf(v); coll != nil && isDirectElem(v) {
		if _, isStr := v.Type().Underlying().(*types.Basic); isStr {
			if ins, local := mf.insertions(coll); local && len(ins) > 0 {
				d := ""
				for _, i := range ins {
					if i.elem == nil {
						return "?"
					}
					ed := mf.keyDesc(i.elem, depth+1)
					if d != "" && ed != d {
						return "?"
					}
					d = ed
				}
				if d != "" {
					return d
				}
			}
		}
	}
	a := m.ap(v)
	if len(a.Path) >= 1 && a.Root != nil {
		// the field's owner: the type of the value one step up the path
		owner := ""
		switch r := v.(type) {
		case *ssa.UnOp:
			if fa, ok := r.X.(*ssa.FieldAddr); ok {
				if n := ptrNamed(fa.X.Type()); n != nil {
					owner = n.Obj().Name()
				}
			}
		case *ssa.Field:
			if n, ok := types.Unalias(r.X.Type()).(*types.Named); ok {
				owner = n.Obj().Name()
			}
		case *ssa.Call:
			// protobuf getter folded into the path: receiver type
			if len(r.Call.Args) > 0 {
				if n := ptrNamed(r.Call.Args[0].Type()); n != nil {
					owner = n.Obj().Name()
				}
			}
		}
		if owner != "" {
			return owner + "." + a.Path[len(a.Path)-1]
		}
	}
	return "?"
}

// ruleR7f: the local sets that steer the filters (removed / modified keys) are looked up with the
// same kind of key they were filled with.
func (ma *mergeAnalysis) ruleR7f(c *Ctx) {
	c.rule("R7f", "filter keys agree: every lookup in a local key set (the removed / re-set keys collected from the plugin's list) uses the same key — the same field of the same element type, the name part of an env string counting as KeyValue.Key — as the keys the set was filled with", 8)
	for _, mf := range ma.fns {
		ord := 0
		for _, b := range mf.fn.Blocks {
			for _, in := range b.Instrs {
				lk, ok := in.(*ssa.Lookup)
				if !ok {
					continue
				}
				if _, isMap := lk.X.Type().Underlying().(*types.Map); !isMap {
					continue
				}
				ins, local := mf.insertions(lk.X)
				if !local || len(ins) == 0 {
					continue
				}
				fill := map[string]bool{}
				for _, i := range ins {
					if i.key != nil {
						fill[mf.keyDesc(i.key, 0)] = true
					}
				}
				if len(fill) == 0 {
					continue
				}
				ord++
				got := mf.keyDesc(lk.Index, 0)
				key := fmt.Sprintf("%s/lookup#%d", mf.fn.Name(), ord)
				okK := fill[got] && got != "?" && len(fill) == 1
				c.ok("R7f", key, lk.Pos(), okK, fmt.Sprintf("the lookup in %s uses the key the set was filled with (%s)", mf.fn.Name(), strings.Join(sortedKeys(fill), ", ")),
					fmt.Sprintf("the set is filled with keys of kind [%s] but looked up with %s: entries the plugin removed or replaced are not found, so a removed item stays in (or a replaced item is duplicated in) what the runtime and later plugins get", strings.Join(sortedKeys(fill), ", "), got))
			}
		}
	}
}

// isDirectElem: v is itself an element of a collection (range value, xs[i], m[k]), not a field of one.
func isDirectElem(v ssa.Value) bool {
	switch x := v.(type) {
	case *ssa.Extract:
		_, ok := x.Tuple.(*ssa.Next)
		return ok
	case *ssa.Index, *ssa.Lookup:
		return true
	case *ssa.UnOp:
		_, ok := x.X.(*ssa.IndexAddr)
		return ok
	}
	return false
}

// ---------------------------------------------------------------- R8u: no claim under a marker's name

// purgedOfMarked: coll is a plugin-supplied map from which every removal-marked key was deleted by a loop
// over that same map that is over before block b runs.
func (mf *mergeFn) purgedOfMarked(coll ssa.Value, b *ssa.BasicBlock) bool {
	for _, ci := range calls(mf.fn) {
		call, ok := ci.(*ssa.Call)
		if !ok {
			continue
		}
		bi, ok := call.Call.Value.(*ssa.Builtin)
		if !ok || bi.Name() != "delete" || call.Call.Args[0] != coll {
			continue
		}
		key := call.Call.Args[1]
		if c2, isKey := rangeOf(key); c2 != coll || !isKey {
			continue
		}
		if mf.markedPol(key, call.Block()) != 1 {
			continue
		}
		// the purge loop is finished before b: its header's exit dominates b and b is outside the loop
		hdr := loopHeader(call.Block())
		if hdr == nil || canReach(b, hdr) {
			continue
		}
		if hdr.Dominates(b) {
			return true
		}
	}
	return false
}

// ruleR8u: what is claimed is an item, never a removal marker.
func (ma *mergeAnalysis) ruleR8u(c *Ctx) {
	c.rule("R8u", "no claim under a marker's name: in every merge function that interprets removal markers, the key of every keyed claim is known not to be removal-marked where the claim runs (the marker test failed for it, it comes from the part of the split that holds the sets, or the marked keys were deleted from the plugin's map by a loop that is over) — a claimed marker is a phantom item that nothing releases, and the next plugin removing the same key collides with it", 4)
	for _, mf := range ma.fns {
		hasMarked := false
		for _, ci := range calls(mf.fn) {
			if call, ok := ci.(*ssa.Call); ok {
				if _, ok := mf.isMarkedTest(call); ok {
					hasMarked = true
				}
			}
		}
		if !hasMarked {
			continue
		}
		ord := map[string]int{}
		for _, cc := range mf.claims {
			if cc.key == nil {
				continue
			}
			base := mf.fn.Name() + "/" + cc.name()
			ord[base]++
			key := base
			if ord[base] > 1 {
				key = fmt.Sprintf("%s#%d", base, ord[base])
			}
			b := cc.call.Block()
			okU := mf.elemMarked(cc.key, b) == -1
			if !okU {
				if coll, _ := rangeOf(cc.key); coll != nil && mf.purgedOfMarked(coll, b) {
					okU = true
				}
			}
			c.ok("R8u", key, cc.call.Pos(), okU, fmt.Sprintf("%s in %s claims a key that is not a removal marker", cc.name(), mf.fn.Name()),
				"the key claimed here can be a removal marker ('-key'): the plugin that removes an item becomes the owner of a phantom item named like the marker, which nothing ever releases, so a second plugin removing (or removing and re-setting) the same key is refused as a conflict")
		}
	}
}
