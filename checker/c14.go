package main

import (
	"fmt"
	"go/constant"
	"go/token"
	"go/types"
	"sort"
	"strings"
	"unicode"

	"golang.org/x/tools/go/ssa"
)

func init() {
	register("C14", &propInfo{
		run: func(c *Ctx) {
			ruleV1V2(c)
			ruleV3(c)
			ruleV4(c)
			ruleV5(c)
			ruleV6(c)
			ruleV7(c)
			ruleV8(c)
			ruleV9(c)
		},
		explanation: "Round-trip equality is a statement about values and is not decided.  Decided are the tables and shapes it needs: for each NRI/OCI conversion pair the From and To field maps are mutually inverse relations with agreeing field names, cover every field of the NRI message (frozen exceptions with reasons), and pass optional scalars as pointers through the optional constructors / Get() so that unset and zero stay distinct; every call site of an optional constructor passes a type the constructor's own type switch accepts (anything else silently becomes unset); LinuxResources.Copy stores no pointer, map or slice taken from the receiver into the result and copies every listed field; the event-mask parser and printer tables are inverse, total on the 13 events and disjoint from the parser's keywords; the env separator agrees across its four users. In conversion loops the append is made on every iteration. Whether a field is carried over depends on that field (or its part) only.",
		notDecided: []string{
			"integer conversions at the edges (uint64 to int64)",
			"the printer/parser loops themselves beyond the tables",
			"equality of converted values",
		},
	})
}

func normName(s string) string {
	var b strings.Builder
	for _, seg := range strings.Split(s, ".") {
		if seg == "[]" {
			continue
		}
		for _, r := range seg {
			if unicode.IsLetter(r) || unicode.IsDigit(r) {
				b.WriteRune(unicode.ToLower(r))
			}
		}
		if seg == "{}" {
			b.WriteString("{}")
		}
		if seg == "{key}" {
			b.WriteString("{key}")
		}
		b.WriteString(".")
	}
	return strings.TrimSuffix(b.String(), ".")
}

func dropIdx(p string) string {
	var out []string
	for _, seg := range strings.Split(p, ".") {
		if seg == "[]" || seg == "" {
			continue
		}
		out = append(out, seg)
	}
	return strings.Join(out, ".")
}

type convPair struct {
	name     string
	from, to *ssa.Function
	fromIdx  int // parameter index of the OCI object in from
	nriTypes []string
	exempt   map[string]string
}

type fieldPair struct {
	nri, oci string
	fl       flow
}

func convFlows(m *Module, f *ssa.Function, srcParam int) []fieldPair {
	var out []fieldPair
	p := f.Params[srcParam]
	for _, fl := range m.fieldFlows(f) {
		if fl.Src.Root != ssa.Value(p) {
			continue
		}
		if _, outParam := fl.Root.(*ssa.Parameter); outParam {
			continue // side output through a pointer parameter (propagation query), not part of the converted object
		}
		out = append(out, fieldPair{dropIdx(fl.Path), dropIdx(fl.Src.PathString()), fl})
	}
	return out
}

func ruleV1V2(c *Ctx) {
	m := c.M
	c.rule("V1", "inverse field maps: for each conversion pair the From-OCI and To-OCI field maps are mutually inverse relations on (NRI field, OCI field), the two names of a pair agree up to case and punctuation, and every exported field of the NRI message occurs (frozen exceptions: BlockioClass/RdtClass have no OCI resource counterpart)", 40)
	c.rule("V2", "nil-preserving: wherever the OCI field is a pointer and the NRI field an optional wrapper, From passes the pointer itself to the optional constructor and To uses the wrapper's Get(); never a dereference, GetValue() or address of the value", 30)
	pairs := []convPair{
		{"LinuxResources", m.fn(pkgAPI, "FromOCILinuxResources"), m.method(pkgAPI, "LinuxResources", "ToOCI"), 0,
			[]string{"LinuxMemory:Memory", "LinuxCPU:Cpu", "HugepageLimit:HugepageLimits", "LinuxDeviceCgroup:Devices", "LinuxPids:Pids"},
			map[string]string{}},
		{"Mount", m.fn(pkgAPI, "FromOCIMounts"), m.method(pkgAPI, "Mount", "ToOCI"), 0, []string{"Mount:"}, nil},
		{"LinuxDevice", m.fn(pkgAPI, "FromOCILinuxDevices"), m.method(pkgAPI, "LinuxDevice", "ToOCI"), 0, []string{"LinuxDevice:"}, nil},
		{"Hook", m.fn(pkgAPI, "FromOCIHookSlice"), m.method(pkgAPI, "Hook", "ToOCI"), 0, []string{"Hook:"}, nil},
	}
	for _, cp := range pairs {
		fp := convFlows(m, cp.from, cp.fromIdx) // nri <- oci
		tp := convFlows(m, cp.to, 0)            // oci <- nri
		F := map[string]fieldPair{}
		T := map[string]fieldPair{}
		for _, p := range fp {
			F[normName(p.nri)+"|"+normName(p.oci)] = p
		}
		for _, p := range tp {
			T[normName(p.oci)+"|"+normName(p.nri)] = fieldPair{p.oci, p.nri, p.fl}
		}
		keys := map[string]bool{}
		for k := range F {
			keys[k] = true
		}
		for k := range T {
			keys[k] = true
		}
		for _, k := range sortedKeysB(keys) {
			f, inF := F[k]
			t, inT := T[k]
			var nri, oci string
			var p token.Pos
			if inF {
				nri, oci, p = f.nri, f.oci, f.fl.At.Pos()
			} else {
				nri, oci, p = t.nri, t.oci, t.fl.At.Pos()
			}
			key := cp.name + "/" + nri
			what := fmt.Sprintf("%s: NRI field %s <-> OCI field %s is converted in both directions", cp.name, nri, oci)
			switch {
			case !inT:
				c.violate("V1", key, p, what, fmt.Sprintf("%s fills NRI %s from OCI %s but %s has no inverse flow: the field is lost (or taken from elsewhere) on the way back", cp.from.Name(), nri, oci, funcKey(cp.to)))
			case !inF:
				c.violate("V1", key, p, what, fmt.Sprintf("%s fills OCI %s from NRI %s but %s has no inverse flow: the field is lost (or taken from elsewhere) on the way in", funcKey(cp.to), oci, nri, cp.from.Name()))
			default:
				a, b := strings.Split(k, "|")[0], strings.Split(k, "|")[1]
				c.ok("V1", key, p, a == b, what, fmt.Sprintf("names do not correspond (%s vs %s): fields are crossed", nri, oci))
			}
		}
		// completeness over the NRI message types
		for _, spec := range cp.nriTypes {
			tn, prefix := strings.SplitN(spec, ":", 2)[0], strings.SplitN(spec, ":", 2)[1]
			st := m.structOf(pkgAPI, tn)
			for i := 0; i < st.NumFields(); i++ {
				fld := st.Field(i)
				if !fld.Exported() {
					continue
				}
				path := fld.Name()
				if prefix != "" {
					path = prefix + "." + fld.Name()
				}
				found := false
				for k := range F {
					if strings.HasPrefix(k, normName(path)+"|") || strings.HasPrefix(k, normName(path)+".") {
						found = true
					}
				}
				c.ok("V1", cp.name+"/complete/"+path, fld.Pos(), found, fmt.Sprintf("%s: field %s of the NRI message is filled from the OCI object", cp.name, path),
					"no flow fills this field: it is dropped by the conversion")
			}
		}
		// V2
		for _, p := range fp {
			nriT := flowDstType(p.fl)
			if !isOptionalPtr(nriT) {
				continue
			}
			key := cp.name + "/from/" + p.nri
			call, ok := p.fl.Val.(*ssa.Call)
			what := fmt.Sprintf("%s passes OCI %s to the optional constructor without dereferencing", cp.from.Name(), p.oci)
			if !ok {
				c.violate("V2", key, p.fl.At.Pos(), what, "the optional field is not built by a constructor call")
				continue
			}
			g := m.callee(call.Common())
			if _, isCtor := m.pureWrapper(g); !isCtor || len(call.Call.Args) != 1 {
				c.violate("V2", key, p.fl.At.Pos(), what, "the optional field is not built by an optional constructor")
				continue
			}
			arg := call.Call.Args[0]
			if mi, ok := arg.(*ssa.MakeInterface); ok {
				arg = mi.X
			}
			// the OCI source field's declared type
			ociT := valueFieldType(arg)
			okp := true
			detail := ""
			if ociT != nil {
				if _, isPtr := ociT.Underlying().(*types.Pointer); isPtr {
					if !types.Identical(arg.Type(), ociT) {
						okp = false
						detail = fmt.Sprintf("the OCI field has pointer type %s but a %s is passed: an unset value becomes a set zero", ociT, arg.Type())
					}
				}
			}
			// the argument must be the field itself, not a dereference of it
			if u, ok := arg.(*ssa.UnOp); ok && u.Op == token.MUL {
				if inner, ok := u.X.(*ssa.UnOp); ok && inner.Op == token.MUL {
					if _, isPtr := inner.Type().Underlying().(*types.Pointer); isPtr {
						okp = false
						detail = "the OCI pointer is dereferenced before it is passed: unset is turned into a value (or panics)"
					}
				}
			}
			c.ok("V2", key, p.fl.At.Pos(), okp, what, detail)
		}
		for _, p := range tp {
			ociT := flowDstType(p.fl)
			if ociT == nil {
				continue
			}
			if _, isPtr := ociT.Underlying().(*types.Pointer); !isPtr {
				continue
			}
			srcT := apLeafType(m, p.fl)
			if !isOptionalPtr(srcT) {
				continue
			}
			key := cp.name + "/to/" + p.nri
			what := fmt.Sprintf("%s converts optional %s with Get()", funcKey(cp.to), p.nri)
			call, ok := p.fl.Val.(*ssa.Call)
			okg := false
			if ok {
				if g := m.callee(call.Common()); g != nil && g.Name() == "Get" && isOptionalPtr(g.Signature.Recv().Type()) {
					okg = true
				}
			}
			c.ok("V2", key, p.fl.At.Pos(), okg, what, "the OCI pointer is not produced by the wrapper's Get(): an unset optional becomes a pointer to zero (or the reverse)")
		}
	}
}

func sortedKeysB(m map[string]bool) []string {
	var ks []string
	for k := range m {
		ks = append(ks, k)
	}
	sort.Strings(ks)
	return ks
}

func isOptionalPtr(t types.Type) bool {
	if t == nil {
		return false
	}
	p, ok := t.Underlying().(*types.Pointer)
	if !ok {
		return false
	}
	n, ok := types.Unalias(p.Elem()).(*types.Named)
	return ok && n.Obj().Pkg() != nil && n.Obj().Pkg().Path() == pkgAPI && strings.HasPrefix(n.Obj().Name(), "Optional")
}

// flowDstType: the declared type of the location a flow stores into.
func flowDstType(fl flow) types.Type {
	switch x := fl.At.(type) {
	case *ssa.Store:
		if p, ok := x.Addr.Type().Underlying().(*types.Pointer); ok {
			return p.Elem()
		}
	case *ssa.MapUpdate:
		return x.Value.Type()
	}
	return nil
}

// valueFieldType: declared type of the struct field that v was loaded from.
func valueFieldType(v ssa.Value) types.Type {
	for i := 0; i < 4 && v != nil; i++ {
		switch x := v.(type) {
		case *ssa.UnOp:
			if fa, ok := x.X.(*ssa.FieldAddr); ok && x.Op == token.MUL {
				if p, ok := fa.Type().Underlying().(*types.Pointer); ok {
					return p.Elem()
				}
			}
			return nil
		case *ssa.Field:
			return x.Type()
		case *ssa.Convert:
			v = x.X
		case *ssa.ChangeType:
			v = x.X
		default:
			return nil
		}
	}
	return nil
}

// apLeafType: the type of the NRI-side source field of a To flow (the receiver of Get()).
func apLeafType(m *Module, fl flow) types.Type {
	if call, ok := fl.Val.(*ssa.Call); ok && len(call.Call.Args) >= 1 {
		if g := m.callee(call.Common()); g != nil && g.Signature.Recv() != nil {
			return call.Call.Args[0].Type()
		}
	}
	// direct field: find the declared type through the value
	if t := valueFieldType(fl.Val); t != nil {
		return t
	}
	// &x.Value or similar: look for an optional wrapper on the path
	v := fl.Val
	for i := 0; i < 6 && v != nil; i++ {
		switch x := v.(type) {
		case *ssa.FieldAddr:
			if isOptionalPtr(x.X.Type()) {
				return x.X.Type()
			}
			v = x.X
		case *ssa.UnOp:
			v = x.X
		case *ssa.Alloc:
			// pointer to a local copy of the value
			for _, r := range *x.Referrers() {
				if st, ok := r.(*ssa.Store); ok && st.Addr == ssa.Value(x) {
					return apLeafType(m, flow{Val: st.Val})
				}
			}
			return nil
		case *ssa.Convert:
			v = x.X
		default:
			return nil
		}
	}
	return nil
}

// ---------------------------------------------------------------- V3

var optionalCtors = []string{"String", "Int", "Int32", "UInt32", "Int64", "UInt64", "Bool", "FileMode"}

func ctorCases(m *Module, f *ssa.Function) []types.Type {
	var out []types.Type
	for _, b := range f.Blocks {
		for _, in := range b.Instrs {
			if ta, ok := in.(*ssa.TypeAssert); ok && ta.X == ssa.Value(f.Params[0]) {
				out = append(out, ta.AssertedType)
			}
		}
	}
	return out
}

func ruleV3(c *Ctx) {
	c.rule("V3", "constructor argument types: at every call site of an optional constructor (including through the adaptation's aliases) the static type of the argument is one of the constructor's own type-switch cases; any other type silently yields an unset optional", 100)
	n := checkCtorSites(c, c.M, "")
	c.note("V3: %d constructor call sites in the main module", n)
	if c.Tier == "thorough" {
		for _, sub := range pluginModules(c.Repo) {
			mm, err := loadModule(sub, false, nil)
			if err != nil {
				c.note("V3: module %s not loaded (%v)", sub, err)
				continue
			}
			k := checkCtorSites(c, mm, relMod(c.Repo, sub)+":")
			c.note("V3: %d constructor call sites in module %s", k, relMod(c.Repo, sub))
		}
	}
}

func checkCtorSites(c *Ctx, m *Module, prefix string) int {
	ctors := map[*ssa.Function][]types.Type{}
	for _, n := range optionalCtors {
		if f := m.fnOpt(pkgAPI, n); f != nil {
			ctors[f] = ctorCases(m, f)
			if len(ctors[f]) < 2 {
				c.violate("V3", prefix+"ctor/"+n, f.Pos(), "constructor "+n+" has a type switch over its accepted argument types", "no type switch found on the argument")
			}
		} else if prefix == "" {
			panic(anchorErr{"optional constructor api." + n + " not found"})
		}
	}
	n := 0
	ord := map[string]int{}
	for _, f := range m.funcs() {
		if f.Pkg == nil || !strings.HasPrefix(f.Pkg.Pkg.Path(), modPath) || f.Synthetic != "" {
			continue
		}
		if ctors[f] != nil {
			continue
		}
		for _, ci := range calls(f) {
			g := m.callee(ci.Common())
			cases, ok := ctors[g]
			if !ok || len(ci.Common().Args) != 1 {
				continue
			}
			n++
			arg := ci.Common().Args[0]
			var at types.Type
			if mi, ok := arg.(*ssa.MakeInterface); ok {
				at = mi.X.Type()
			} else if isNilConst(arg) {
				continue
			} else {
				at = nil // already an interface value: cannot be decided statically
			}
			base := prefix + funcKey(f) + "/" + g.Name()
			ord[base]++
			key := fmt.Sprintf("%s#%d", base, ord[base])
			if at == nil {
				c.undecided("V3", key, ci.Pos(), "argument type of "+g.Name()+" is accepted by its type switch", "argument is an interface value of unknown dynamic type")
				continue
			}
			okT := false
			for _, ct := range cases {
				if types.Identical(ct, at) {
					okT = true
				}
			}
			c.ok("V3", key, ci.Pos(), okT, fmt.Sprintf("%s(%s) in %s: the argument type is one the constructor accepts", g.Name(), at, funcKey(f)),
				fmt.Sprintf("type %s is not a case of %s's type switch: the default branch returns nil and the value is silently dropped", at, g.Name()))
		}
	}
	return n
}

// ---------------------------------------------------------------- V4

func ruleV4(c *Ctx) {
	m := c.M
	c.rule("V4", "Copy is deep: LinuxResources.Copy stores no pointer-, map- or slice-typed value taken from the receiver into the result (every such field gets a fresh object, built by an optional constructor that returns fresh-or-nil, a composite literal, make or append on the copy's own field); the field map is the identity on memory (8), CPU (7), hugepage (2), unified, pids and the two classes", 24)
	f := m.method(pkgAPI, "LinuxResources", "Copy")
	recv := f.Params[0]
	flows := m.fieldFlows(f)
	got := map[string]bool{}
	for _, fl := range flows {
		if fl.Src.Root != ssa.Value(recv) {
			continue
		}
		dst, src := dropIdx(fl.Path), dropIdx(fl.Src.PathString())
		key := "flow/" + dst
		got[dst] = true
		okI := dst == src
		// sharing: reference-typed values must be fresh
		shared := ""
		switch fl.Val.Type().Underlying().(type) {
		case *types.Pointer, *types.Map, *types.Slice:
			if !freshValue(m, fl.Val, 0) {
				shared = fmt.Sprintf("the %s stored is the receiver's own object (%s): the copy and the original share mutable state, so staging an update on the copy changes the accumulated resources", fl.Val.Type(), fl.Src)
			}
		}
		detail := shared
		if !okI && detail == "" {
			detail = fmt.Sprintf("field %s of the copy is taken from %s of the original", dst, src)
		}
		c.ok("V4", key, fl.At.Pos(), okI && shared == "", fmt.Sprintf("Copy: %s is copied from the same field and shares nothing", dst), detail)
	}
	// presence: whether a part is copied depends on its being present (nil / empty), never on its value
	for _, b := range f.Blocks {
		iff := lastIf(b)
		if iff == nil {
			continue
		}
		bo, ok := iff.Cond.(*ssa.BinOp)
		if !ok {
			continue
		}
		a := m.ap(bo.X)
		if a.Root != ssa.Value(recv) {
			continue
		}
		if _, isLen := isBuiltinCall(bo.X, "len"); isLen || isNilConst(bo.Y) {
			continue
		}
		if _, isNum := constInt(bo.Y); isNum {
			c.violate("V4", "presence/"+a.PathString(), iff.Pos(), "Copy decides by presence, not by value, whether to copy "+a.PathString(),
				"the copy of "+a.PathString()+" depends on its value: an explicitly set zero is dropped by the copy, so an update staged on the copy loses it")
		}
	}
	// completeness
	var want []string
	for _, spec := range []string{"LinuxMemory:Memory", "LinuxCPU:Cpu", "HugepageLimit:HugepageLimits", "LinuxPids:Pids"} {
		tn, prefix := strings.SplitN(spec, ":", 2)[0], strings.SplitN(spec, ":", 2)[1]
		st := m.structOf(pkgAPI, tn)
		for i := 0; i < st.NumFields(); i++ {
			if st.Field(i).Exported() {
				want = append(want, prefix+"."+fname(st.Field(i)))
			}
		}
	}
	want = append(want, "Unified.{}", "Unified.{key}", "BlockioClass", "RdtClass")
	for _, w := range want {
		c.ok("V4", "complete/"+w, f.Pos(), got[w], "Copy copies "+w, "the field is not copied: a staged update silently loses it")
	}
	// constructors return fresh or nil
	for _, n := range optionalCtors {
		g := m.fn(pkgAPI, n)
		okF := true
		for _, r := range returnsOf(g) {
			for _, v := range returnValues(r, 0) {
				if isNilConst(v) {
					continue
				}
				if _, fresh := v.(*ssa.Alloc); !fresh {
					okF = false
				}
			}
		}
		c.ok("V4", "ctor/"+n, g.Pos(), okF, "optional constructor "+n+" returns a fresh wrapper or nil on every path", "the constructor can return its argument (or something else that is not fresh): copies would share the wrapper")
	}
}

// freshValue: v is a freshly allocated object on every path (or nil).
func freshValue(m *Module, v ssa.Value, d int) bool {
	if d > 4 {
		return false
	}
	switch x := v.(type) {
	case *ssa.Alloc, *ssa.MakeMap, *ssa.MakeSlice:
		return true
	case *ssa.Const:
		return x.IsNil()
	case *ssa.Call:
		if _, ok := isBuiltinCall(x, "append"); ok {
			return true // append on the copy's own field (placement already rooted in the copy)
		}
		g := m.callee(x.Common())
		if g == nil {
			return false
		}
		if g.Pkg != nil && g.Pkg.Pkg.Path() == pkgAPI {
			for _, n := range optionalCtors {
				if g.Name() == n && g.Signature.Recv() == nil {
					return true
				}
			}
			if g.Name() == "DupStringSlice" || g.Name() == "DupStringMap" {
				return true
			}
			if m.mapCopyFn(g) {
				return true
			}
		}
		if isStdClone(g, "maps") || isStdClone(g, "slices") {
			return true
		}
		return false
	case *ssa.Phi:
		for _, e := range x.Edges {
			if !freshValue(m, e, d+1) {
				return false
			}
		}
		return true
	case *ssa.Slice:
		return freshValue(m, x.X, d+1)
	}
	return false
}

// ---------------------------------------------------------------- V5 and event tables

// eventConsts returns the Event enum constants of pkg/api by name.
func eventConsts(m *Module) map[string]int64 {
	out := map[string]int64{}
	evT := m.named(pkgAPI, "Event")
	sc := m.pkg(pkgAPI).Pkg.Scope()
	for _, n := range sc.Names() {
		if cst, ok := sc.Lookup(n).(*types.Const); ok && types.Identical(cst.Type(), evT) {
			if v, ok := constant.Int64Val(cst.Val()); ok {
				out[n] = v
			}
		}
	}
	return out
}

// mapLiteral extracts the constant entries of a map literal built in f (MakeMap + MapUpdates with constant key/value).
func mapLiterals(f *ssa.Function) [][][2]constant.Value {
	out := mapLiteralsIn(f)
	// package-level tables the function reads: map variables initialised by a literal and never assigned again
	if f.Pkg == nil {
		return out
	}
	seen := map[*ssa.Global]bool{}
	for _, b := range f.Blocks {
		for _, in := range b.Instrs {
			u, ok := in.(*ssa.UnOp)
			if !ok {
				continue
			}
			g, ok := u.X.(*ssa.Global)
			if !ok || seen[g] || g.Pkg != f.Pkg {
				continue
			}
			seen[g] = true
			initF := f.Pkg.Func("init")
			if initF == nil {
				continue
			}
			writers := 0
			for _, mem := range f.Pkg.Members {
				if fn, ok := mem.(*ssa.Function); ok && fn != initF {
					for _, bb := range fn.Blocks {
						for _, i2 := range bb.Instrs {
							if st, ok := i2.(*ssa.Store); ok && st.Addr == ssa.Value(g) {
								writers++
							}
						}
					}
				}
			}
			if writers > 0 {
				continue
			}
			for _, bb := range initF.Blocks {
				for _, i2 := range bb.Instrs {
					if st, ok := i2.(*ssa.Store); ok && st.Addr == ssa.Value(g) {
						if mm, ok := st.Val.(*ssa.MakeMap); ok {
							if e := mapEntries(mm); len(e) > 0 {
								out = append(out, e)
							}
						}
						// built by an initialiser function from another constant table
						if call, ok := st.Val.(*ssa.Call); ok {
							if h := call.Common().StaticCallee(); h != nil && len(h.Blocks) > 0 {
								for _, r := range returnsOf(h) {
									if mm, ok := r.Results[0].(*ssa.MakeMap); ok && len(r.Results) == 1 {
										if e := derivedInverse(mm); len(e) > 0 {
											out = append(out, e)
										}
									}
								}
							}
						}
					}
				}
			}
		}
	}
	return out
}

func mapEntries(mm *ssa.MakeMap) [][2]constant.Value {
	var entries [][2]constant.Value
	for _, r := range *mm.Referrers() {
		if mu, ok := r.(*ssa.MapUpdate); ok && mu.Map == ssa.Value(mm) {
			k, ok1 := mu.Key.(*ssa.Const)
			v, ok2 := mu.Value.(*ssa.Const)
			if ok1 && ok2 && k.Value != nil && v.Value != nil {
				entries = append(entries, [2]constant.Value{k.Value, v.Value})
			}
		}
	}
	return entries
}

func mapLiteralsIn(f *ssa.Function) [][][2]constant.Value {
	var out [][][2]constant.Value
	for _, b := range f.Blocks {
		for _, in := range b.Instrs {
			mm, ok := in.(*ssa.MakeMap)
			if !ok {
				continue
			}
			var entries [][2]constant.Value
			for _, r := range *mm.Referrers() {
				if mu, ok := r.(*ssa.MapUpdate); ok && mu.Map == ssa.Value(mm) {
					k, ok1 := mu.Key.(*ssa.Const)
					v, ok2 := mu.Value.(*ssa.Const)
					if ok1 && ok2 && k.Value != nil && v.Value != nil {
						entries = append(entries, [2]constant.Value{k.Value, v.Value})
					}
				}
			}
			if len(entries) > 0 {
				out = append(out, entries)
			}
		}
	}
	return out
}

// eventNames returns the printer's table event value -> method name.
func eventNames(m *Module) map[int64]string {
	f := m.method(pkgAPI, "EventMask", "PrettyString")
	out := map[int64]string{}
	for _, lit := range mapLiterals(f) {
		for _, e := range lit {
			if e[0].Kind() == constant.Int && e[1].Kind() == constant.String {
				v, _ := constant.Int64Val(e[0])
				out[v] = constant.StringVal(e[1])
			}
		}
	}
	if len(out) == 0 {
		// the table as a package-level array indexed by the event
		for _, b := range f.Blocks {
			for _, in := range b.Instrs {
				ia, ok := in.(*ssa.IndexAddr)
				if !ok {
					continue
				}
				if g, ok := ia.X.(*ssa.Global); ok {
					for k, v := range globalArrayLiteral(g) {
						if v.Kind() == constant.String && constant.StringVal(v) != "" {
							out[k] = constant.StringVal(v)
						}
					}
				}
			}
		}
	}
	if len(out) == 0 {
		panic(anchorErr{"event name table of EventMask.PrettyString not found"})
	}
	return out
}

// globalArrayLiteral: the constant entries of a package-level array variable initialised by a composite
// literal and never assigned again (index -> value).
func globalArrayLiteral(g *ssa.Global) map[int64]constant.Value {
	out := map[int64]constant.Value{}
	if g.Pkg == nil {
		return out
	}
	initF := g.Pkg.Func("init")
	if initF == nil {
		return out
	}
	for _, mem := range g.Pkg.Members {
		if fn, ok := mem.(*ssa.Function); ok && fn != initF {
			for _, bb := range fn.Blocks {
				for _, i2 := range bb.Instrs {
					if st, ok := i2.(*ssa.Store); ok {
						if st.Addr == ssa.Value(g) {
							return map[int64]constant.Value{}
						}
						if ia, ok := st.Addr.(*ssa.IndexAddr); ok && ia.X == ssa.Value(g) {
							return map[int64]constant.Value{}
						}
					}
				}
			}
		}
	}
	for _, bb := range initF.Blocks {
		for _, i2 := range bb.Instrs {
			// the literal's elements stored straight into the variable …
			if ia, ok := i2.(*ssa.IndexAddr); ok && ia.X == ssa.Value(g) {
				if k, isC := constInt(ia.Index); isC {
					for _, rr := range *ia.Referrers() {
						if s2, ok := rr.(*ssa.Store); ok && s2.Addr == ssa.Value(ia) {
							if cv, ok := s2.Val.(*ssa.Const); ok && cv.Value != nil {
								out[k] = cv.Value
							}
						}
					}
				}
				continue
			}
			// … or built in a temporary that is then copied into it
			st, ok := i2.(*ssa.Store)
			if !ok || st.Addr != ssa.Value(g) {
				continue
			}
			ld, ok := st.Val.(*ssa.UnOp)
			if !ok {
				continue
			}
			al, ok := ld.X.(*ssa.Alloc)
			if !ok {
				continue
			}
			for _, r := range *al.Referrers() {
				ia, ok := r.(*ssa.IndexAddr)
				if !ok {
					continue
				}
				k, isC := constInt(ia.Index)
				if !isC {
					continue
				}
				for _, rr := range *ia.Referrers() {
					if s2, ok := rr.(*ssa.Store); ok && s2.Addr == ssa.Value(ia) {
						if cv, ok := s2.Val.(*ssa.Const); ok && cv.Value != nil {
							out[k] = cv.Value
						}
					}
				}
			}
		}
	}
	return out
}

// derivedInverse: the entries of a map built as `for e := lo; e < hi; e++ { m[strings.ToLower(table[e])] = e }`
// from a constant package-level table — the inverse of that table up to lower-casing, by construction.
func derivedInverse(mm *ssa.MakeMap) [][2]constant.Value {
	var out [][2]constant.Value
	for _, r := range *mm.Referrers() {
		mu, ok := r.(*ssa.MapUpdate)
		if !ok || mu.Map != ssa.Value(mm) {
			continue
		}
		lc, ok := mu.Key.(*ssa.Call)
		if !ok {
			return nil
		}
		if g := lc.Common().StaticCallee(); g == nil || g.String() != "strings.ToLower" {
			return nil
		}
		ld, ok := lc.Call.Args[0].(*ssa.UnOp)
		if !ok {
			return nil
		}
		ia, ok := ld.X.(*ssa.IndexAddr)
		if !ok {
			return nil
		}
		g, ok := ia.X.(*ssa.Global)
		if !ok {
			return nil
		}
		phi, ok := ia.Index.(*ssa.Phi)
		if !ok || mu.Value != ssa.Value(phi) {
			return nil
		}
		// loop range: constant start, +1 step, `phi < hi` guarding the body
		var lo, hi int64 = -1, -1
		for _, e := range phi.Edges {
			if k, isC := constInt(e); isC {
				lo = k
				continue
			}
			bo, ok := e.(*ssa.BinOp)
			if !ok || bo.Op != token.ADD || bo.X != ssa.Value(phi) {
				return nil
			}
			if one, isC := constInt(bo.Y); !isC || one != 1 {
				return nil
			}
		}
		for _, cd := range controls(mu.Block()) {
			cd = normCond(cd)
			if bo, ok := cd.V.(*ssa.BinOp); ok && bo.Op == token.LSS && bo.X == ssa.Value(phi) && cd.Pol {
				if k, isC := constInt(bo.Y); isC {
					hi = k
				}
			}
		}
		if lo < 0 || hi < 0 {
			return nil
		}
		tab := globalArrayLiteral(g)
		for i := lo; i < hi; i++ {
			name := ""
			if v, ok := tab[i]; ok && v.Kind() == constant.String {
				name = constant.StringVal(v)
			}
			out = append(out, [2]constant.Value{constant.MakeString(strings.ToLower(name)), constant.MakeInt64(i)})
		}
	}
	return out
}

func ruleV5(c *Ctx) {
	m := c.M
	c.rule("V5", "mask tables: the parser's name table and the printer's name table are inverse up to lower-casing, total on the 13 events, and the names are disjoint from the parser's keywords and contain no separator", 13)
	names := eventNames(m)
	parse := m.fn(pkgAPI, "ParseEventMask")
	bits := map[string]int64{}
	for _, lit := range mapLiterals(parse) {
		for _, e := range lit {
			if e[0].Kind() == constant.String && e[1].Kind() == constant.Int {
				v, _ := constant.Int64Val(e[1])
				bits[constant.StringVal(e[0])] = v
			}
		}
	}
	// keywords: constant strings the parser compares names with, and separators it splits on
	keywords := map[string]bool{}
	seps := map[string]bool{}
	for _, b := range parse.Blocks {
		for _, in := range b.Instrs {
			switch x := in.(type) {
			case *ssa.BinOp:
				if x.Op == token.EQL {
					if s, ok := constString(x.Y); ok {
						keywords[s] = true
					}
				}
			case *ssa.Call:
				if g := m.callee(x.Common()); g != nil && g.String() == "strings.Split" {
					if s, ok := constString(x.Call.Args[1]); ok {
						seps[s] = true
					}
				}
			}
		}
	}
	evs := eventConsts(m)
	for _, en := range sortedKeysI(evs) {
		v := evs[en]
		if en == "Event_UNKNOWN" || en == "Event_LAST" {
			continue
		}
		pn, okN := names[v]
		key := "event/" + en
		what := fmt.Sprintf("%s has a printer name whose lower-case form the parser maps back to it", en)
		if !okN {
			c.violate("V5", key, parse.Pos(), what, "the printer has no name for this event")
			continue
		}
		lc := strings.ToLower(pn)
		bv, okB := bits[lc]
		bad := ""
		switch {
		case !okB:
			bad = fmt.Sprintf("the parser does not know %q", lc)
		case bv != v:
			bad = fmt.Sprintf("the parser maps %q to event %d, the printer printed it for %d", lc, bv, v)
		case keywords[lc]:
			bad = fmt.Sprintf("%q is also a parser keyword", lc)
		}
		for s := range seps {
			if strings.Contains(pn, s) {
				bad = fmt.Sprintf("name %q contains the separator %q", pn, s)
			}
		}
		c.ok("V5", key, parse.Pos(), bad == "", what, bad)
	}
	// the printer's loop visits every defined event
	pr := m.method(pkgAPI, "EventMask", "PrettyString")
	var minEv, maxEv int64 = 1 << 30, 0
	for en, v := range evs {
		if en == "Event_UNKNOWN" || en == "Event_LAST" {
			continue
		}
		if v < minEv {
			minEv = v
		}
		if v > maxEv {
			maxEv = v
		}
	}
	okLoop := false
	detail := "no loop over the event values found in PrettyString"
	for _, b := range pr.Blocks {
		for _, in := range b.Instrs {
			ph, ok := in.(*ssa.Phi)
			if !ok {
				continue
			}
			var start int64 = -1
			for _, e := range ph.Edges {
				if k, ok := constInt(e); ok {
					start = k
				}
			}
			if start < 0 {
				continue
			}
			for _, r := range *ph.Referrers() {
				bo, ok := r.(*ssa.BinOp)
				if !ok || bo.X != ssa.Value(ph) {
					continue
				}
				k, ok := constInt(bo.Y)
				if !ok {
					continue
				}
				var last int64 = -1
				switch bo.Op {
				case token.LEQ:
					last = k
				case token.LSS:
					last = k - 1
				}
				if last < 0 {
					continue
				}
				if start <= minEv && last >= maxEv {
					okLoop = true
				} else {
					detail = fmt.Sprintf("the printer's loop runs over %d..%d but the defined events are %d..%d: masks containing an event outside the loop print as unknown(...) and do not parse back", start, last, minEv, maxEv)
				}
			}
		}
	}
	c.ok("V5", "printer-loop", pr.Pos(), okLoop, "PrettyString's loop covers every defined event", detail)
	// no extra parser names
	for _, n := range sortedKeysI(bits) {
		found := false
		for v, pn := range names {
			if strings.ToLower(pn) == n && v == bits[n] {
				found = true
			}
		}
		if !found {
			c.violate("V5", "parser/"+n, parse.Pos(), "every parser name is a printer name", fmt.Sprintf("parser name %q has no printer counterpart", n))
		}
	}
}

func sortedKeysI(m map[string]int64) []string {
	var ks []string
	for k := range m {
		ks = append(ks, k)
	}
	sort.Strings(ks)
	return ks
}

// ruleV7: the optional constructors and Get() pass the value through unchanged.
func ruleV7(c *Ctx) {
	m := c.M
	c.rule("V7", "exact value: each optional constructor stores into the wrapper's Value exactly its argument (for every accepted argument type: the value itself, the pointee, or the other wrapper's Value) through conversions only — no method call or arithmetic on it — and each Get() returns a pointer to exactly the wrapper's Value", 16)
	pureFrom := func(v ssa.Value, srcOK func(ssa.Value) bool) (bool, string) {
		seen := map[ssa.Value]bool{}
		var walk func(x ssa.Value, d int) (bool, string)
		walk = func(x ssa.Value, d int) (bool, string) {
			if x == nil || d > 12 {
				return false, "too deep"
			}
			if srcOK(x) {
				return true, ""
			}
			if seen[x] {
				return true, ""
			}
			seen[x] = true
			switch y := x.(type) {
			case *ssa.Phi:
				for _, e := range y.Edges {
					if ok, why := walk(e, d+1); !ok {
						return false, why
					}
				}
				return true, ""
			case *ssa.Convert:
				return walk(y.X, d+1)
			case *ssa.ChangeType:
				return walk(y.X, d+1)
			case *ssa.UnOp:
				if y.Op == token.MUL {
					if al, ok := y.X.(*ssa.Alloc); ok {
						for _, r := range *al.Referrers() {
							if st, ok := r.(*ssa.Store); ok && st.Addr == ssa.Value(al) {
								if ok, why := walk(st.Val, d+1); !ok {
									return false, why
								}
							}
						}
						return true, ""
					}
					return walk(y.X, d+1)
				}
				return false, "operator " + y.Op.String()
			case *ssa.FieldAddr:
				return walk(y.X, d+1)
			case *ssa.Extract:
				return walk(y.Tuple, d+1)
			case *ssa.TypeAssert:
				return walk(y.X, d+1)
			case *ssa.Const:
				return true, "" // zero initial value of the local
			case *ssa.Call:
				return false, "a call of " + m.calleeName(y.Common())
			case *ssa.BinOp:
				return false, "arithmetic (" + y.Op.String() + ")"
			}
			return false, fmt.Sprintf("%T", x)
		}
		return walk(v, 0)
	}
	for _, n := range optionalCtors {
		f := m.fn(pkgAPI, n)
		bad := "the constructor does not store a Value"
		for _, fl := range m.fieldFlows(f) {
			if fl.Path != "Value" {
				continue
			}
			ok, why := pureFrom(fl.Val, func(x ssa.Value) bool { return x == ssa.Value(f.Params[0]) })
			if ok {
				bad = ""
			} else {
				bad = "the stored Value is computed from the argument through " + why + ": the wrapper does not hold exactly the value it was given"
			}
		}
		c.ok("V7", "ctor/"+n, f.Pos(), bad == "", "optional constructor "+n+" stores exactly its argument", bad)
		// Get
		wt := "Optional" + n
		g := m.methodOpt(pkgAPI, wt, "Get")
		if g == nil {
			c.violate("V7", "get/"+wt, f.Pos(), wt+" has a Get method", "method not found")
			continue
		}
		badG := ""
		for _, r := range returnsOf(g) {
			for _, v := range returnValues(r, 0) {
				if isNilConst(v) {
					continue
				}
				isValue := func(x ssa.Value) bool {
					fa, ok := x.(*ssa.FieldAddr)
					return ok && fa.X == ssa.Value(g.Params[0]) && fieldName(fa.X.Type(), fa.Field) == "Value"
				}
				// a helper that returns the address of (a copy of) its argument: ptrTo(o.Value)
				if call, ok := v.(*ssa.Call); ok && len(call.Call.Args) == 1 {
					if h := m.callee(call.Common()); h != nil && addrOfParamFn(h) {
						if okp, why := pureFrom(call.Call.Args[0], isValue); !okp {
							badG = "the value returned is computed through " + why
						}
						continue
					}
				}
				al, ok := v.(*ssa.Alloc)
				if !ok {
					badG = "Get does not return a pointer to a local copy of the value"
					continue
				}
				for _, rr := range *al.Referrers() {
					if st, ok := rr.(*ssa.Store); ok && st.Addr == ssa.Value(al) {
						okp, why := pureFrom(st.Val, isValue)
						if !okp {
							badG = "the value returned is computed through " + why
						}
					}
				}
			}
		}
		c.ok("V7", "get/"+wt, g.Pos(), badG == "", wt+".Get returns exactly the wrapped value", badG)
	}
}

// addrOfParamFn: h(v T) *T { return &v } — every return is the cell its one parameter was spilled into.
func addrOfParamFn(h *ssa.Function) bool {
	if h == nil || len(h.Blocks) == 0 || len(h.Params) != 1 {
		return false
	}
	rets := returnsOf(h)
	for _, r := range rets {
		if len(r.Results) != 1 {
			return false
		}
		al, ok := r.Results[0].(*ssa.Alloc)
		if !ok {
			return false
		}
		n := 0
		for _, rr := range *al.Referrers() {
			if st, ok := rr.(*ssa.Store); ok && st.Addr == ssa.Value(al) {
				if st.Val != ssa.Value(h.Params[0]) {
					return false
				}
				n++
			}
		}
		if n != 1 {
			return false
		}
	}
	return len(rets) > 0
}

// ---------------------------------------------------------------- V8 conversions copy every element

// ruleV8: a conversion loop appends on every iteration.
func ruleV8(c *Ctx) {
	m := c.M
	c.rule("V8", "every element converted: in the NRI<->OCI conversion functions of pkg/api, a loop over a list of the value being converted that appends to the result does so on every iteration (the append post-dominates the loop body's entry) — no element is skipped depending on its value", 4)
	n := 0
	for _, f := range m.funcsInPkg(pkgAPI) {
		if f.Synthetic != "" || f.Parent() != nil {
			continue
		}
		name := f.Name()
		if !(name == "ToOCI" || strings.HasPrefix(name, "FromOCI") || strings.HasPrefix(name, "ToOCI")) {
			continue
		}
		for _, b := range f.Blocks {
			for _, in := range b.Instrs {
				ap, ok := isBuiltinCall2(in, "append")
				if !ok || len(ap.Call.Args) != 2 || !inLoop(b) {
					continue
				}
				hdr := loopHeader(b)
				if hdr == nil {
					continue
				}
				body := loopBody(hdr)
				// the loop ranges over a list (or map) of the value being converted
				var ca AP
				found := false
				for bb := range body {
					for _, i2 := range bb.Instrs {
						var coll ssa.Value
						switch x := i2.(type) {
						case *ssa.IndexAddr:
							if _, isPhi := x.Index.(*ssa.Phi); isPhi || bb != hdr {
								coll = x.X
							}
						case *ssa.Index:
							coll = x.X
						case *ssa.Next:
							if rg, ok := x.Iter.(*ssa.Range); ok {
								coll = rg.X
							}
						}
						if coll == nil {
							continue
						}
						a := m.ap(coll)
						if _, isParam := a.Root.(*ssa.Parameter); isParam && !found {
							ca, found = a, true
						}
					}
				}
				if !found {
					continue
				}
				// the loop body's entry: the successor of the header that stays in the loop
				var entry *ssa.BasicBlock
				for _, s := range hdr.Succs {
					if body[s] && s != hdr {
						entry = s
					}
				}
				if entry == nil {
					continue
				}
				n++
				okP := entry == b || m.postDominates(b, entry)
				// confirmed exception (one line of reason each)
				if why, ok := map[string]string{
					"FromOCIEnv": "the skipped case is `len(strings.SplitN(s, \"=\", 2)) == 0`, which SplitN with n=2 never returns",
				}[funcKey(f)]; ok && !okP {
					c.add("V8", fmt.Sprintf("%s/%s#%d", funcKey(f), ca.PathString(), n), ap.Pos(), Discharged, fmt.Sprintf("%s converts every element (confirmed exception: %s)", funcKey(f), why), "")
					continue
				}
				c.ok("V8", fmt.Sprintf("%s/%s#%d", funcKey(f), ca.PathString(), n), ap.Pos(), okP, fmt.Sprintf("%s converts every element of %s", funcKey(f), ca.PathString()),
					"the append of the converted element is skipped on some path through the loop body (a `continue`, or a condition on the element's value): such elements are missing after the conversion, so converting there and back loses them")
			}
		}
	}
}

// isBuiltinCall2: like isBuiltinCall for an instruction.
func isBuiltinCall2(in ssa.Instruction, name string) (*ssa.Call, bool) {
	v, ok := in.(ssa.Value)
	if !ok {
		return nil, false
	}
	return isBuiltinCall(v, name)
}

// ---------------------------------------------------------------- V9 fields are converted independently

// ruleV9: whether a field is carried over depends on that field (or the part it belongs to) only.
func ruleV9(c *Ctx) {
	m := c.M
	c.rule("V9", "fields are converted independently: in the conversion and copy functions of pkg/api the store that carries a field over is controlled only by presence tests of that field or of the part it belongs to — never by another field's presence (an early return on one optional part must not skip the parts after it)", 20)
	n := 0
	for _, f := range m.funcsInPkg(pkgAPI) {
		if f.Synthetic != "" || f.Parent() != nil {
			continue
		}
		name := f.Name()
		if !(name == "ToOCI" || name == "Copy" || strings.HasPrefix(name, "FromOCI") || strings.HasPrefix(name, "ToOCI")) {
			continue
		}
		mf := newMergeFn(m, f)
		seen := map[string]bool{}
		for _, fl := range m.fieldFlows(f) {
			prm, ok := fl.Src.Root.(*ssa.Parameter)
			if !ok || len(fl.Src.Path) == 0 {
				continue
			}
			q := dropIdx(fl.Src.PathString())
			key := funcKey(f) + "/" + dropIdx(fl.Path)
			if seen[key] {
				continue
			}
			seen[key] = true
			bad := ""
			for _, cd := range controls(fl.At.Block()) {
				// leaving an earlier loop is not a condition: the exit is always taken eventually
				if cd.If != nil && canReach(cd.If.Block(), cd.If.Block()) && !canReach(fl.At.Block(), cd.If.Block()) {
					continue
				}
				for _, s := range mf.condSubjects(cd) {
					if s.Root != ssa.Value(prm) || len(s.Path) == 0 {
						continue
					}
					sp := dropIdx(s.PathString())
					// related: one is a prefix of the other (the field itself, or the part it lives in)
					if strings.HasPrefix(q+".", sp+".") || strings.HasPrefix(sp+".", q+".") {
						continue
					}
					bad = fmt.Sprintf("the copy of %s is controlled by a test of %s: when that other part is absent (or present) this field is silently not converted", q, sp)
				}
			}
			n++
			c.ok("V9", key, fl.At.Pos(), bad == "", fmt.Sprintf("%s carries %s over whatever the other fields are", funcKey(f), dropIdx(fl.Path)), bad)
		}
	}
}
