package main

import (
	"fmt"
	"go/token"
	"strings"

	"golang.org/x/tools/go/ssa"
)

func init() {
	register("C08", &propInfo{
		run: func(c *Ctx) {
			ruleS1(c)
			ruleS2S3(c)
			ruleS4(c)
			ruleB4(c)
			ruleB2(c)
			ruleB5(c)
			ruleA3(c) // a plugin that subscribes with an empty mask is subscribed to everything, so it hears of later creations
			ruleB3(c) // a failed synchronization leaves a closed plugin, which can never become active
		},
		explanation: "Decides the typestate of the synchronization lock: requestPluginSync/finishedPluginSync are exactly the exclusive Lock/Unlock and BlockPluginSync/Unblock exactly the shared RLock/RUnlock of the same Adaptation.syncLock, Unblock releasing at most once per block; in the accept loop the runtime's state snapshot (the call of the sync callback with the plugin's synchronize) and the activation (append to the plugin list) both happen with the exclusive lock held, the lock is released exactly once on every path from the acquisition to the next iteration or exit; the activation depends on the snapshot having succeeded, happens under the adaptation lock and is followed by the sort; no other code path adds a plugin to the active list except start-up. BlockPluginSync holds the shared lock at every exit; a deadline on the snapshot's context is started only after the sync lock was acquired. Every failing return of plugin.synchronize is preceded by closing the plugin, and the start-up sync callback itself never reports an error. An empty subscription mask is widened to all events.",
		notDecided: []string{
			"the runtime's side of the contract (creating containers inside a sync block)",
			"that sync.RWMutex excludes readers and writers",
			"which interleavings occur",
		},
	})
}

func ruleS1(c *Ctx) {
	m := c.M
	c.rule("S1", "lock identity and mode: requestPluginSync / finishedPluginSync are exactly Lock / Unlock (exclusive) and BlockPluginSync / Unblock exactly RLock / RUnlock (shared) of the same field Adaptation.syncLock; Unblock releases only when the block still refers to its adaptation and clears that reference on the release path", 4)
	la := adaptationLocks(c)
	type want struct {
		typ, fn string
		acq     bool
		mode    byte
	}
	for _, w := range []want{
		{"Adaptation", "BlockPluginSync", true, 'R'},
		{"PluginSyncBlock", "Unblock", false, 'R'},
	} {
		f := m.method(pkgAdapt, w.typ, w.fn)
		// the lock operations of f: made directly, or by a helper whose whole effect is that operation
		type lop struct {
			ID      lockID
			Acquire bool
		}
		var ops []lop
		for _, ci := range calls(f) {
			if op := la.lockOpOf(ci.Common()); op != nil {
				ops = append(ops, lop{op.ID, op.Acquire})
				continue
			}
			if g := m.callee(ci.Common()); g != nil && la.scope[g] {
				if eff := la.summarise(g); eff != nil {
					for id := range eff.acquires {
						ops = append(ops, lop{id, true})
					}
					for id := range eff.releases {
						ops = append(ops, lop{id, false})
					}
				}
			}
		}
		ok1 := len(ops) == 1 && ops[0].ID.Name == "Adaptation.syncLock" && ops[0].ID.Mode == w.mode && ops[0].Acquire == w.acq
		detail := ""
		if !ok1 {
			var ds []string
			for _, o := range ops {
				ds = append(ds, fmt.Sprintf("%s acquire=%v", o.ID, o.Acquire))
			}
			detail = fmt.Sprintf("found lock operations [%s]; want exactly one %s of Adaptation.syncLock in mode %c: registration no longer excludes (or is no longer excluded by) sync blocks", strings.Join(ds, ", "), map[bool]string{true: "acquisition", false: "release"}[w.acq], w.mode)
		}
		c.ok("S1", w.fn, f.Pos(), ok1, fmt.Sprintf("%s.%s is exactly the %s %s of Adaptation.syncLock", w.typ, w.fn, map[byte]string{'W': "exclusive", 'R': "shared"}[w.mode], map[bool]string{true: "acquisition", false: "release"}[w.acq]), detail)
	}
	// a sync block is never handed out without the lock: BlockPluginSync holds the shared lock at every exit
	{
		bpf := m.method(pkgAdapt, "Adaptation", "BlockPluginSync")
		held := false
		if eff := la.summarise(bpf); eff != nil {
			held = eff.acquires[lockID{"Adaptation.syncLock", 'R'}]
		}
		c.ok("S1", "BlockPluginSync/every-exit", bpf.Pos(), held, "BlockPluginSync returns with the shared sync lock held on every path",
			"some path of BlockPluginSync returns a block without having taken the sync lock: while that block is 'held' a plugin can be synchronized and activated, so a container created under it is seen twice or not at all")
	}
	// the registration path's side of the gate: its acquisitions and releases of the same lock are exclusive
	{
		reg := acceptLoop(m)
		acq, rel, modes := syncGateOps(la, reg)
		for _, x := range []struct {
			key  string
			ops  []ssa.Instruction
			what string
		}{{"requestPluginSync", acq, "acquisition"}, {"finishedPluginSync", rel, "release"}} {
			okM := len(x.ops) > 0
			detail := "the registration path (" + funcKey(reg) + ") has no " + x.what + " of Adaptation.syncLock: registration no longer excludes (or is no longer excluded by) sync blocks"
			for _, o := range x.ops {
				if modes[o] != 'W' {
					okM = false
					detail = fmt.Sprintf("the %s at %s is in mode %c; want exclusive: registration no longer excludes (or is no longer excluded by) sync blocks", x.what, c.pos(o.Pos()), modes[o])
				}
			}
			c.ok("S1", x.key, reg.Pos(), okM, "the registration path's "+x.what+" of Adaptation.syncLock is exclusive", detail)
		}
	}
	// Unblock: release guarded by b.r != nil, followed by b.r = nil
	ub := m.method(pkgAdapt, "PluginSyncBlock", "Unblock")
	okG, okC := false, false
	_, ubRel, _ := syncGateOps(la, ub)
	for _, ci := range ubRel {
		for _, cd := range controls(ci.Block()) {
			cd = normCond(cd)
			if bo, ok := cd.V.(*ssa.BinOp); ok && isNilConst(bo.Y) && ((bo.Op == token.NEQ && cd.Pol) || (bo.Op == token.EQL && !cd.Pol)) {
				a := m.ap(bo.X)
				if a.Root == ssa.Value(ub.Params[0]) && a.PathString() == "r" {
					okG = true
				}
			}
		}
		for _, b := range ub.Blocks {
			for _, in := range b.Instrs {
				if st, ok := in.(*ssa.Store); ok && isNilConst(st.Val) {
					a := m.ap(st.Addr)
					if a.Root == ssa.Value(ub.Params[0]) && a.PathString() == "r" && domInstr(ci, st) {
						okC = true
					}
				}
			}
		}
	}
	// the block handed out is a fresh object that nobody else can get hold of
	bp := m.method(pkgAdapt, "Adaptation", "BlockPluginSync")
	fresh := true
	for _, r := range returnsOf(bp) {
		for _, v := range returnValues(r, 0) {
			if _, ok := v.(*ssa.Alloc); !ok {
				fresh = false
			}
		}
	}
	escapes := ""
	for _, ci := range calls(ub) {
		for _, a := range ci.Common().Args {
			v := a
			if mi, ok := v.(*ssa.MakeInterface); ok {
				v = mi.X
			}
			if v == ssa.Value(ub.Params[0]) && la.lockOpOf(ci.Common()) == nil {
				escapes = m.calleeName(ci.Common())
			}
		}
	}
	c.ok("S1", "block/fresh", bp.Pos(), fresh && escapes == "", "every sync block is a fresh object owned by its caller alone (not recycled, not published by Unblock)",
		"the block returned is not freshly allocated, or Unblock hands it to "+escapes+": a second Unblock by the first owner (documented as safe) then releases a lock that now belongs to another request")
	c.ok("S1", "Unblock/once", ub.Pos(), okG && okC, "Unblock releases at most once per block (guarded by, and clearing, the block's adaptation reference)",
		"the release is not guarded by the block's reference or the reference is not cleared after releasing: a second Unblock releases a read lock it does not hold")
}

// acceptLoop returns the function that registers an accepted plugin: the one function of the adaptation
// package, start-up aside, that calls the runtime's sync callback (today the goroutine body of
// acceptPluginConnections; a helper called from it when the loop body is extracted).
func acceptLoop(m *Module) *ssa.Function {
	sp := m.method(pkgAdapt, "Adaptation", "startPlugins")
	var found []*ssa.Function
	for _, f := range m.funcsInPkg(pkgAdapt) {
		inStartup := false
		for p := f; p != nil; p = p.Parent() {
			if p == sp {
				inStartup = true
			}
		}
		if !inStartup && len(syncFnCalls(m, f)) > 0 {
			found = append(found, f)
		}
	}
	if len(found) != 1 {
		panic(anchorErr{fmt.Sprintf("registration path not found: %d functions besides start-up call the sync callback", len(found))})
	}
	return found[0]
}

// acceptLoopFn returns the function that contains the Accept loop and, when the registration of an
// accepted connection lives in a helper, the call of that helper in the loop (nil otherwise).
func acceptLoopFn(m *Module) (*ssa.Function, ssa.CallInstruction) {
	reg := acceptLoop(m)
	hasAccept := func(f *ssa.Function) bool {
		for _, ci := range calls(f) {
			if ci.Common().IsInvoke() && ci.Common().Method.Name() == "Accept" {
				return true
			}
		}
		return false
	}
	if hasAccept(reg) {
		return reg, nil
	}
	for _, cs := range m.callersOf(reg) {
		if hasAccept(cs.Caller) {
			return cs.Caller, cs.Instr
		}
	}
	panic(anchorErr{"the Accept loop of the external-plugin listener was not found"})
}

// syncGateOps: the instructions of f that acquire / release Adaptation.syncLock, directly or through
// a callee whose net effect is that operation.
func syncGateOps(la *lockAnalysis, f *ssa.Function) (acq, rel []ssa.Instruction, modes map[ssa.Instruction]byte) {
	modes = map[ssa.Instruction]byte{}
	for _, ci := range calls(f) {
		if _, isDefer := ci.(*ssa.Defer); isDefer {
			continue
		}
		if op := la.lockOpOf(ci.Common()); op != nil {
			if op.ID.Name == "Adaptation.syncLock" {
				modes[ci] = op.ID.Mode
				if op.Acquire {
					acq = append(acq, ci)
				} else {
					rel = append(rel, ci)
				}
			}
			continue
		}
		g := la.m.callee(ci.Common())
		if g == nil || !la.scope[g] {
			continue
		}
		if eff := la.summarise(g); eff != nil {
			for id := range eff.acquires {
				if id.Name == "Adaptation.syncLock" {
					acq = append(acq, ci)
					modes[ci] = id.Mode
				}
			}
			for id := range eff.releases {
				if id.Name == "Adaptation.syncLock" {
					rel = append(rel, ci)
					modes[ci] = id.Mode
				}
			}
		}
	}
	return
}

// syncFnCalls: calls through the Adaptation.syncFn field in f.
func syncFnCalls(m *Module, f *ssa.Function) []*ssa.Call {
	var out []*ssa.Call
	for _, ci := range calls(f) {
		call, ok := ci.(*ssa.Call)
		if !ok || call.Call.IsInvoke() || m.callee(call.Common()) != nil {
			continue
		}
		a := m.ap(call.Call.Value)
		if len(a.Path) > 0 && a.Path[len(a.Path)-1] == "syncFn" {
			out = append(out, call)
		}
	}
	return out
}

func ruleS2S3(c *Ctx) {
	m := c.M
	c.rule("S2", "exclusive section: in the accept loop the call of the runtime's sync callback with the plugin's synchronize and the activation both run with Adaptation.syncLock held exclusively; every path from the acquisition to the next iteration or to an exit passes the release, and no release is followed by another release without a new acquisition", 4)
	c.rule("S3", "activation: the append of the new plugin to the active list is control-dependent on the sync callback having returned nil, is made under the adaptation lock and is followed by sortPlugins before that lock is released", 1)
	la := adaptationLocks(c)
	f := acceptLoop(m)
	acq, rel, _ := syncGateOps(la, f)
	if len(acq) != 1 {
		c.violate("S2", "acquire", f.Pos(), "the accept loop requests plugin sync exactly once per plugin", fmt.Sprintf("%d acquisitions of Adaptation.syncLock in %s", len(acq), funcKey(f)))
		return
	}
	a := acq[0]
	relI := rel
	// sync callback under the lock, with the plugin's synchronize
	sfs := syncFnCalls(m, f)
	if len(sfs) != 1 {
		c.violate("S2", "snapshot", f.Pos(), "the accept loop takes the runtime's state snapshot through the sync callback", fmt.Sprintf("%d calls through Adaptation.syncFn", len(sfs)))
		return
	}
	sf := sfs[0]
	cb := closureFn(sf.Call.Args[1])
	okCB := false
	syn := m.method(pkgAdapt, "plugin", "synchronize")
	if cb != nil {
		// bound method value p.synchronize: a synthetic wrapper whose only call is plugin.synchronize
		if cb == syn {
			okCB = true
		}
		for _, ci := range calls(cb) {
			if m.callee(ci.Common()) == syn {
				okCB = true
			}
		}
	}
	c.ok("S2", "snapshot", sf.Pos(), la.holds(sf, "Adaptation.syncLock", 'W') && okCB, "the state snapshot (syncFn with the plugin's synchronize) is taken with the sync lock held exclusively",
		"the sync callback runs with lockset "+la.describe(sf)+" (or not with the plugin's synchronize): a container created concurrently is seen neither in the snapshot nor as a creation request — or in both")
	// the snapshot's context: a deadline that started while the registration was still waiting for the sync blocks
	// to be released would expire during a long-held block and fail a registration that only had to wait
	for _, src := range valueSources(sf.Call.Args[0], sf, 0) {
		ex, ok := src.(*ssa.Extract)
		if !ok || ex.Index != 0 {
			continue
		}
		w, ok := ex.Tuple.(*ssa.Call)
		if !ok {
			continue
		}
		if g := m.callee(w.Common()); g != nil && (g.String() == "context.WithTimeout" || g.String() == "context.WithDeadline") {
			c.ok("S2", "snapshot/deadline", w.Pos(), domInstr(a, w), "a deadline on the snapshot starts only after the sync lock was acquired",
				"the snapshot's deadline is started before the registration has acquired the sync lock: the time spent waiting for sync blocks counts against it, so a registration that waits longer than the timeout fails although 'pending registrations complete once the last block is released'")
		}
	}
	// activation: a store to the plugin list, or a call of a helper that performs it
	sites := activationSites(m, f)
	if len(sites) != 1 {
		c.violate("S2", "activation", f.Pos(), "the accept loop activates the synchronized plugin in one place", fmt.Sprintf("%d activation sites in the accept loop", len(sites)))
		return
	}
	act := sites[0].At
	c.ok("S2", "activation", act.Pos(), la.holds(act, "Adaptation.syncLock", 'W'), "the activation happens with the sync lock still held exclusively",
		"the plugin is added to the active list with lockset "+la.describe(act)+": between snapshot and activation a container can be created that the plugin never hears of")
	// every path from the acquisition to the back edge / exit passes a release
	leak := ""
	if reachesUnkilled(a, a, relI) {
		leak = "a path from requestPluginSync back to the next iteration does not pass finishedPluginSync"
	}
	for _, r := range returnsOf(f) {
		if reachesUnkilled(a, r, relI) {
			leak = fmt.Sprintf("the exit at %s can be reached from requestPluginSync without finishedPluginSync", c.pos(r.Pos()))
		}
	}
	c.ok("S2", "release-all-paths", a.Pos(), leak == "" && len(rel) > 0, "every path from the acquisition passes the release before the next iteration or exit",
		leak+suffixIf(leak != "", ": the sync lock stays held, all later registrations and every BlockPluginSync hang"))
	dbl := ""
	for _, r1 := range rel {
		for _, r2 := range rel {
			if reachesUnkilled(r1, r2, []ssa.Instruction{a}) {
				dbl = fmt.Sprintf("the release at %s can be followed by the release at %s without a new acquisition", c.pos(r1.Pos()), c.pos(r2.Pos()))
			}
		}
	}
	c.ok("S2", "release-once", a.Pos(), dbl == "", "the sync lock is released at most once per acquisition", dbl)
	// S3
	bad := ""
	ev := errResult(sf)
	dep := false
	for _, t := range nilTestsOf(ev) {
		if t.NilSucc.Dominates(act.Block()) && len(t.NilSucc.Preds) == 1 {
			dep = true
		}
	}
	if !dep {
		// the error may be assigned to a variable first (err = r.syncFn(...))
		for _, cd := range controls(act.Block()) {
			cd = normCond(cd)
			if bo, ok := cd.V.(*ssa.BinOp); ok && isNilConst(bo.Y) && ((bo.Op == token.EQL && cd.Pol) || (bo.Op == token.NEQ && !cd.Pol)) {
				for _, s := range valueSources(bo.X, cd.If, 0) {
					if s == ev {
						dep = true
					}
				}
			}
		}
	}
	if !dep {
		bad = "the activation does not depend on the sync callback having succeeded: a plugin whose synchronization failed becomes active"
	}
	for _, st := range sites[0].Stores {
		if !la.holds(st, "Adaptation.Mutex", 'W') {
			bad = "the activation is not under the adaptation lock"
		}
	}
	c.ok("S3", "activation", act.Pos(), bad == "", "the plugin is activated only after a successful snapshot, under the adaptation lock", bad)
}

func ruleS4(c *Ctx) {
	m := c.M
	c.rule("S4", "no other activation path: the only writers of the active plugin list that add a plugin are the accept loop (inside the exclusive section) and start-up; every other writer is a filter of the list or nil", 4)
	adT := m.named(pkgAdapt, "Adaptation")
	al := acceptLoop(m)
	sp := m.method(pkgAdapt, "Adaptation", "startPlugins")
	for _, f := range m.funcsInPkg(pkgAdapt) {
		for _, fs := range m.fieldStores(f, adT, "plugins") {
			key := "writer/" + funcKey(f)
			if isNilConst(fs.Store.Val) {
				c.add("S4", key, fs.Store.Pos(), Discharged, funcKey(f)+" clears the plugin list", "")
				continue
			}
			mf := newMergeFn(m, f)
			isFilter := false
			if ins, local := mf.insertions(fs.Store.Val); local && len(ins) > 0 {
				isFilter = true
				for _, i := range ins {
					coll, _ := rangeOf(i.elem)
					if i.elem == nil || coll == nil || m.ap(coll).PathString() != "plugins" {
						isFilter = false
					}
				}
			}
			okCtx := f == al || f == sp
			if !okCtx && !isFilter {
				// a helper that is only reached from the accept loop or start-up
				cs := m.callersOf(f)
				okCtx = len(cs) > 0 && len(m.funcRefs(f)) == 0
				for _, x := range cs {
					if x.Caller != al && x.Caller != sp {
						okCtx = false
					}
					if _, isGo := x.Instr.(*ssa.Go); isGo {
						okCtx = false
					}
				}
			}
			c.ok("S4", key, fs.Store.Pos(), isFilter || okCtx, fmt.Sprintf("%s does not activate plugins outside registration and start-up", funcKey(f)),
				"a plugin is added to the active list outside the accept loop's exclusive section and outside start-up: it never received a state snapshot")
		}
	}
	// start-up is reached only from Start
	for _, cs := range m.callersOf(sp) {
		c.ok("S4", "startPlugins-caller/"+funcKey(cs.Caller), cs.Instr.Pos(), cs.Caller.Name() == "Start", "startPlugins is only called from Start", "startPlugins is called from "+funcKey(cs.Caller))
	}
}

// ruleB4: a failed sync never activates (C08, C09).
func ruleB4(c *Ctx) {
	m := c.M
	c.rule("B4", "failed sync never activates: in start-up the plugin is kept for activation only on the branch where its synchronize returned nil (a failing one is stopped and skipped), and the list is assigned only after the sync callback returned nil", 2)
	sp := m.method(pkgAdapt, "Adaptation", "startPlugins")
	syn := m.method(pkgAdapt, "plugin", "synchronize")
	var closure *ssa.Function
	for _, af := range sp.AnonFuncs {
		if len(m.callsTo(af, syn)) > 0 {
			closure = af
		}
	}
	if closure == nil {
		c.violate("B4", "startPlugins/closure", sp.Pos(), "start-up synchronizes launched plugins through a callback", "no closure calling plugin.synchronize")
		return
	}
	call := m.callsTo(closure, syn)[0].(*ssa.Call)
	// appends to the kept list (a free variable) are dominated by the nil branch
	bad := ""
	n := 0
	for _, b := range closure.Blocks {
		for _, in := range b.Instrs {
			st, ok := in.(*ssa.Store)
			if !ok {
				continue
			}
			if _, isFree := st.Addr.(*ssa.FreeVar); !isFree {
				continue
			}
			ap, ok := isBuiltinCall(st.Val, "append")
			if !ok {
				continue
			}
			elems := (&mergeFn{m: m}).appendedElems(ap.Call.Args[1])
			if len(elems) == 1 && elems[0] == call.Call.Args[0] {
				n++
				if !guardedBy(call, b) {
					bad = "the plugin is kept although its synchronization may have failed"
				}
			}
		}
	}
	if n == 0 {
		bad = "the closure never keeps a synchronized plugin"
	}
	c.ok("B4", "startPlugins/keep", call.Pos(), bad == "", "start-up keeps a launched plugin only if its synchronize returned nil", bad)
	// one plugin's failure is that plugin's alone: the callback itself never reports an error (a runtime that passes
	// the callback's error on would otherwise fail start-up and take the healthy plugins down with the failing one)
	okNil := true
	nres := closure.Signature.Results().Len()
	for _, r := range returnsOf(closure) {
		for _, v := range returnValues(r, nres-1) {
			if !isNilConst(v) {
				okNil = false
			}
		}
	}
	c.ok("B4", "startPlugins/callback-error", closure.Pos(), okNil && nres > 0, "the start-up sync callback returns a nil error whatever single plugins did",
		"the callback can return a plugin's synchronization error: with a runtime that passes it on, startPlugins fails, its cleanup stops every plugin already started and Start fails — a plugin that fails to synchronize is no longer 'skipped without affecting the others'")
	// the assignment of r.plugins is dominated by syncFn's nil branch
	adT := m.named(pkgAdapt, "Adaptation")
	sfs := syncFnCalls(m, sp)
	okA := false
	for _, fs := range m.fieldStores(sp, adT, "plugins") {
		for _, sf := range sfs {
			if guardedBy(sf, fs.Store.Block()) {
				okA = true
			}
		}
	}
	c.ok("B4", "startPlugins/assign", sp.Pos(), okA, "start-up activates the kept plugins only after the sync callback returned nil", "r.plugins is assigned although the runtime's sync callback may have failed")
}

// isActivatingStore: a store to Adaptation.plugins that adds elements (neither nil nor a filter of the list itself).
func isActivatingStore(m *Module, f *ssa.Function, st *ssa.Store) bool {
	if isNilConst(st.Val) {
		return false
	}
	mf := newMergeFn(m, f)
	if ins, local := mf.insertions(st.Val); local && len(ins) > 0 {
		filter := true
		for _, i := range ins {
			coll, _ := rangeOf(i.elem)
			if i.elem == nil || coll == nil || m.ap(coll).PathString() != "plugins" {
				filter = false
			}
		}
		if filter {
			return false
		}
	}
	return true
}

// activators: functions of the adaptation package that (directly or through a callee) add plugins to the active list.
func activators(m *Module) map[*ssa.Function][]*ssa.Store {
	adT := m.named(pkgAdapt, "Adaptation")
	direct := map[*ssa.Function][]*ssa.Store{}
	for _, f := range m.funcsInPkg(pkgAdapt) {
		for _, fs := range m.fieldStores(f, adT, "plugins") {
			if isActivatingStore(m, f, fs.Store) {
				direct[f] = append(direct[f], fs.Store)
			}
		}
	}
	return direct
}

// activationSites: the instructions of f at which a plugin becomes active, with the stores behind them.
type actSite struct {
	At     ssa.Instruction
	Stores []*ssa.Store
}

func activationSites(m *Module, f *ssa.Function) []actSite {
	acts := activators(m)
	var out []actSite
	for _, st := range acts[f] {
		out = append(out, actSite{st, []*ssa.Store{st}})
	}
	var viaCall func(g *ssa.Function, depth int) []*ssa.Store
	viaCall = func(g *ssa.Function, depth int) []*ssa.Store {
		if g == nil || depth > 2 {
			return nil
		}
		res := append([]*ssa.Store{}, acts[g]...)
		for _, ci := range calls(g) {
			if h := m.callee(ci.Common()); h != nil && h.Pkg != nil && h.Pkg.Pkg.Path() == pkgAdapt && h != g {
				res = append(res, viaCall(h, depth+1)...)
			}
		}
		return res
	}
	for _, ci := range calls(f) {
		if _, isGo := ci.(*ssa.Go); isGo {
			continue
		}
		g := m.callee(ci.Common())
		if g == nil || g.Pkg == nil || g.Pkg.Pkg.Path() != pkgAdapt || g == f {
			continue
		}
		if sts := viaCall(g, 0); len(sts) > 0 {
			out = append(out, actSite{ci, sts})
		}
	}
	return out
}
