package main

// FF: field-flow maps (DESIGN.md A.9).  For a function, every store into an
// object rooted at a fresh allocation (or at a parameter) is expressed as
//   root.path  <-  access path of the stored value
// with nested fresh allocations flattened into their parent's path.

import (
	"go/token"
	"go/types"
	"strings"

	"golang.org/x/tools/go/ssa"
)

type flow struct {
	Root ssa.Value // *ssa.Alloc or *ssa.Parameter
	Path string    // "Memory.Limit", "HugepageLimits.[].PageSize", "Unified.{}"
	Src  AP
	Val  ssa.Value
	At   ssa.Instruction
}

type ffState struct {
	m    *Module
	memo map[ssa.Value]*place
	busy map[ssa.Value]bool
}

type place struct {
	root ssa.Value
	path []string
}

func (p *place) ext(s ...string) *place {
	return &place{p.root, append(append([]string{}, p.path...), s...)}
}

// placeOf resolves an address (or pointer) to root+path.
func (st *ffState) placeOf(v ssa.Value) *place {
	if p, ok := st.memo[v]; ok {
		return p
	}
	if st.busy[v] {
		return nil
	}
	st.busy[v] = true
	p := st.place1(v)
	delete(st.busy, v)
	st.memo[v] = p
	return p
}

func (st *ffState) place1(v ssa.Value) *place {
	switch x := v.(type) {
	case *ssa.Parameter:
		return &place{x, nil}
	case *ssa.FieldAddr:
		if p := st.placeOf(x.X); p != nil {
			return p.ext(fieldName(x.X.Type(), x.Field))
		}
	case *ssa.IndexAddr:
		if p := st.placeOf(x.X); p != nil {
			return p
		}
	case *ssa.UnOp:
		if x.Op == token.MUL {
			return st.placeOf(x.X)
		}
	case *ssa.Slice:
		return st.placeOf(x.X)
	case *ssa.ChangeType:
		return st.placeOf(x.X)
	case *ssa.Phi:
		// a pointer that is the same object on all edges
		var p0 *place
		for _, e := range x.Edges {
			p := st.placeOf(e)
			if p == nil {
				return nil
			}
			if p0 == nil {
				p0 = p
			} else if p.root != p0.root || strings.Join(p.path, ".") != strings.Join(p0.path, ".") {
				return nil
			}
		}
		return p0
	case *ssa.Alloc:
		// nested in a parent?
		for _, r := range *x.Referrers() {
			switch y := r.(type) {
			case *ssa.Store:
				if y.Val == ssa.Value(x) {
					if p := st.placeOf(y.Addr); p != nil && p.root != ssa.Value(x) {
						return p
					}
				}
			case *ssa.UnOp:
				// struct value loaded and stored elsewhere
				if y.Op == token.MUL && y.Referrers() != nil {
					for _, rr := range *y.Referrers() {
						if s2, ok := rr.(*ssa.Store); ok && s2.Val == ssa.Value(y) {
							if p := st.placeOf(s2.Addr); p != nil && p.root != ssa.Value(x) {
								return p
							}
						}
					}
				}
			case *ssa.Slice:
				// array literal backing a slice: appended to / stored into a field
				for _, rr := range *y.Referrers() {
					switch z := rr.(type) {
					case *ssa.Call:
						if _, ok := isBuiltinCall(z, "append"); ok && len(z.Call.Args) > 1 && z.Call.Args[1] == ssa.Value(y) {
							for _, r3 := range *z.Referrers() {
								if s3, ok := r3.(*ssa.Store); ok && s3.Val == ssa.Value(z) {
									if p := st.placeOf(s3.Addr); p != nil {
										return p.ext("[]")
									}
								}
							}
						}
					case *ssa.Store:
						if z.Val == ssa.Value(y) {
							if p := st.placeOf(z.Addr); p != nil {
								return p.ext("[]")
							}
						}
					}
				}
			}
		}
		return &place{x, nil}
	}
	return nil
}

// isNestedValue: the stored value is a fresh allocation (pointer, loaded
// struct, or slice of a literal array) whose own stores are reported separately.
func isNestedValue(v ssa.Value) bool {
	switch x := v.(type) {
	case *ssa.Alloc:
		return true
	case *ssa.UnOp:
		if x.Op == token.MUL {
			_, ok := x.X.(*ssa.Alloc)
			return ok
		}
	case *ssa.Slice:
		_, ok := x.X.(*ssa.Alloc)
		return ok
	case *ssa.Call:
		if ap, ok := isBuiltinCall(x, "append"); ok && len(ap.Call.Args) > 1 {
			if sl, ok := ap.Call.Args[1].(*ssa.Slice); ok {
				_, ok := sl.X.(*ssa.Alloc)
				return ok
			}
		}
	case *ssa.MakeMap, *ssa.MakeSlice:
		return true
	}
	return false
}

// fieldFlows computes the flows of f.
func (m *Module) fieldFlows(f *ssa.Function) []flow {
	st := &ffState{m: m, memo: map[ssa.Value]*place{}, busy: map[ssa.Value]bool{}}
	var out []flow
	for _, b := range f.Blocks {
		for _, in := range b.Instrs {
			switch x := in.(type) {
			case *ssa.Store:
				if _, bare := x.Addr.(*ssa.Alloc); bare {
					// store of a whole value into a local variable: not a field flow
					if !isNestedValue(x.Val) {
						if p := st.placeOf(x.Addr); p != nil && len(p.path) > 0 {
							out = append(out, flow{p.root, strings.Join(p.path, "."), m.ap(x.Val), x.Val, x})
						}
					}
					continue
				}
				p := st.placeOf(x.Addr)
				if p == nil {
					continue
				}
				if isNestedValue(x.Val) {
					// append(o.F, xs...) with a non-literal operand is a leaf flow of elements
					continue
				}
				if call, ok := x.Val.(*ssa.Call); ok {
					// o.F = build(r.G): a helper of the same package that returns a fresh object (or a list of fresh
					// objects) filled from its parameters — its flows, seen from here
					if h := m.callee(call.Common()); h != nil && h.Pkg == f.Pkg && h != f && len(h.Blocks) > 0 {
						for _, hf := range m.helperFlows(h) {
							prm, ok := hf.Src.Root.(*ssa.Parameter)
							if !ok {
								continue
							}
							k := -1
							for i, hp := range h.Params {
								if hp == prm {
									k = i
								}
							}
							if k < 0 || k >= len(call.Call.Args) {
								continue
							}
							src := m.ap(call.Call.Args[k])
							for _, stp := range hf.Src.Path {
								src = src.extend(stp)
							}
							for _, w := range hf.Src.Wrap {
								src = src.wrap(w)
							}
							path := append(append([]string{}, p.path...), strings.Split(hf.Path, ".")...)
							out = append(out, flow{p.root, strings.Join(path, "."), src, hf.Val, x})
						}
					}
					// o.F = copyOf(r.G): a helper that builds a fresh map from its argument, entry by entry
					if g := m.callee(call.Common()); g != nil && (m.mapCopyFn(g) || isStdClone(g, "maps")) {
						src := m.ap(call.Call.Args[0])
						out = append(out, flow{p.root, strings.Join(append(append([]string{}, p.path...), "{}"), "."), src.extend("{}"), call, x})
						out = append(out, flow{p.root, strings.Join(append(append([]string{}, p.path...), "{key}"), "."), src.extend("{key}"), call, x})
						continue
					}
				}
				if ap, ok := isBuiltinCall(x.Val, "append"); ok && len(ap.Call.Args) > 1 {
					out = append(out, flow{p.root, strings.Join(append(append([]string{}, p.path...), "[]"), "."), m.ap(ap.Call.Args[1]).extend("[]"), ap.Call.Args[1], x})
					continue
				}
				out = append(out, flow{p.root, strings.Join(p.path, "."), m.ap(x.Val), x.Val, x})
			case *ssa.MapUpdate:
				p := st.placeOf(x.Map)
				if p == nil {
					// a local map later stored into a field
					if mm, ok := x.Map.(*ssa.MakeMap); ok {
						for _, r := range *mm.Referrers() {
							if s2, ok := r.(*ssa.Store); ok && s2.Val == ssa.Value(mm) {
								p = st.placeOf(s2.Addr)
							}
						}
					}
				}
				if p == nil {
					continue
				}
				out = append(out, flow{p.root, strings.Join(append(append([]string{}, p.path...), "{}"), "."), m.ap(x.Value), x.Value, x})
				out = append(out, flow{p.root, strings.Join(append(append([]string{}, p.path...), "{key}"), "."), m.ap(x.Key), x.Key, x})
			}
		}
	}
	return out
}

// resultRoots: the roots (fresh allocations) that f returns as result i.
func (m *Module) resultRoots(f *ssa.Function, i int) []ssa.Value {
	st := &ffState{m: m, memo: map[ssa.Value]*place{}, busy: map[ssa.Value]bool{}}
	seen := map[ssa.Value]bool{}
	var out []ssa.Value
	for _, r := range returnsOf(f) {
		if i >= len(r.Results) {
			continue
		}
		for _, v := range returnValues(r, i) {
			if isNilConst(v) {
				continue
			}
			if p := st.placeOf(v); p != nil && len(p.path) == 0 && !seen[p.root] {
				seen[p.root] = true
				out = append(out, p.root)
			}
		}
	}
	return out
}

// mapCopyFn: g takes one map and returns nil or a map it made itself whose only updates are
// made[k] = v for the (k, v) of a range over the parameter — an entry-by-entry copy.
func (m *Module) mapCopyFn(g *ssa.Function) bool {
	if g == nil || len(g.Blocks) == 0 || len(g.Params) != 1 || g.Signature.Results().Len() != 1 {
		return false
	}
	if v, ok := m.mapCopy[g]; ok {
		return v
	}
	if m.mapCopy == nil {
		m.mapCopy = map[*ssa.Function]bool{}
	}
	m.mapCopy[g] = false
	prm := g.Params[0]
	if _, isMap := prm.Type().Underlying().(*types.Map); !isMap {
		return false
	}
	var made *ssa.MakeMap
	for _, r := range returnsOf(g) {
		for _, v := range returnValues(r, 0) {
			if isNilConst(v) {
				continue
			}
			mm, ok := v.(*ssa.MakeMap)
			if !ok || (made != nil && made != mm) {
				return false
			}
			made = mm
		}
	}
	if made == nil {
		return false
	}
	updates := 0
	for _, b := range g.Blocks {
		for _, in := range b.Instrs {
			switch x := in.(type) {
			case *ssa.MapUpdate:
				if x.Map != ssa.Value(made) {
					return false
				}
				k, okK := x.Key.(*ssa.Extract)
				v, okV := x.Value.(*ssa.Extract)
				if !okK || !okV || k.Index != 1 || v.Index != 2 || k.Tuple != v.Tuple {
					return false
				}
				nx, ok := k.Tuple.(*ssa.Next)
				if !ok {
					return false
				}
				rg, ok := nx.Iter.(*ssa.Range)
				if !ok || rg.X != ssa.Value(prm) {
					return false
				}
				updates++
			case *ssa.Store:
				return false
			}
		}
	}
	m.mapCopy[g] = updates > 0
	return updates > 0
}

// isStdClone: g is (an instance of) maps.Clone / slices.Clone — a fresh shallow copy, nil for nil.
func isStdClone(g *ssa.Function, pkg string) bool {
	if g == nil {
		return false
	}
	o := g
	if g.Origin() != nil {
		o = g.Origin()
	}
	return o.Pkg != nil && o.Pkg.Pkg.Path() == pkg && o.Name() == "Clone"
}

// helperFlows: the flows of h into what it returns — a fresh struct (path relative to the result) or the
// fresh elements of a list it builds by append (path "[]."…) — restricted to sources rooted at h's parameters.
func (m *Module) helperFlows(h *ssa.Function) []flow {
	if m.hflows == nil {
		m.hflows = map[*ssa.Function][]flow{}
	}
	if fl, ok := m.hflows[h]; ok {
		return fl
	}
	m.hflows[h] = nil // recursion guard
	if h.Signature.Results().Len() != 1 {
		return nil
	}
	roots := map[ssa.Value]string{}
	for _, r := range m.resultRoots(h, 0) {
		if _, isAlloc := r.(*ssa.Alloc); isAlloc {
			roots[r] = ""
		}
	}
	// elements appended to the returned list
	seen := map[ssa.Value]bool{}
	var walk func(v ssa.Value, d int)
	walk = func(v ssa.Value, d int) {
		if v == nil || seen[v] || d > 8 {
			return
		}
		seen[v] = true
		switch x := v.(type) {
		case *ssa.Phi:
			for _, e := range x.Edges {
				walk(e, d+1)
			}
		case *ssa.Call:
			if ap, ok := isBuiltinCall(x, "append"); ok && len(ap.Call.Args) == 2 {
				walk(ap.Call.Args[0], d+1)
				if sl, ok := ap.Call.Args[1].(*ssa.Slice); ok {
					if arr, ok := sl.X.(*ssa.Alloc); ok {
						roots[arr] = "[]" // the literal's backing array is where its elements' fields are placed
						for _, r := range *arr.Referrers() {
							if ia, ok := r.(*ssa.IndexAddr); ok {
								for _, rr := range *ia.Referrers() {
									if st, ok := rr.(*ssa.Store); ok && st.Addr == ssa.Value(ia) {
										if el, ok := st.Val.(*ssa.Alloc); ok {
											roots[el] = "[]"
										}
									}
								}
							}
						}
					}
				}
			}
		}
	}
	if _, isSlice := h.Signature.Results().At(0).Type().Underlying().(*types.Slice); isSlice {
		for _, r := range returnsOf(h) {
			walk(r.Results[0], 0)
		}
	}
	if len(roots) == 0 {
		return nil
	}
	var out []flow
	for _, fl := range m.fieldFlows(h) {
		prefix, ok := roots[fl.Root]
		if !ok {
			continue
		}
		if _, isP := fl.Src.Root.(*ssa.Parameter); !isP {
			continue
		}
		path := fl.Path
		if prefix != "" {
			path = prefix + "." + fl.Path
		}
		out = append(out, flow{nil, path, fl.Src, fl.Val, fl.At})
	}
	m.hflows[h] = out
	return out
}
