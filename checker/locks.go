package main

// LOCKS: forward must-lockset analysis over SSA with deferred-call replay,
// callee net-effect summaries and caller-held sets propagated along the
// static call graph (DESIGN.md A.8).

import (
	"fmt"
	"go/token"
	"go/types"
	"sort"
	"strings"

	"golang.org/x/tools/go/ssa"
)

type lockID struct {
	Name string // "Adaptation.Mutex", "mux.writeLock", "global:timeoutCfgLock", "once:mux.closeOnce"
	Mode byte   // 'W' or 'R'
}

func (l lockID) String() string { return l.Name + ":" + string(l.Mode) }

type lockSet map[lockID]bool

func (s lockSet) clone() lockSet {
	n := lockSet{}
	for k := range s {
		n[k] = true
	}
	return n
}

func (s lockSet) has(name string) bool {
	return s[lockID{name, 'W'}] || s[lockID{name, 'R'}]
}

func (s lockSet) String() string {
	var ks []string
	for k := range s {
		ks = append(ks, k.String())
	}
	sort.Strings(ks)
	return "{" + strings.Join(ks, ",") + "}"
}

func intersect(a, b lockSet) lockSet {
	if a == nil {
		return b.clone()
	}
	n := lockSet{}
	for k := range a {
		if b[k] {
			n[k] = true
		}
	}
	return n
}

func equalSets(a, b lockSet) bool {
	if len(a) != len(b) {
		return false
	}
	for k := range a {
		if !b[k] {
			return false
		}
	}
	return true
}

// lockOp describes a call that is a lock operation.
type lockOp struct {
	ID      lockID
	Acquire bool
	Recv    ssa.Value // the struct the lock belongs to (nil for globals)
}

type lockEffect struct {
	acquires lockSet // held at every exit though not at entry
	releases lockSet // released on every path though not acquired inside
}

type lockEdge struct {
	From, To string
	At       ssa.Instruction
	Fn       *ssa.Function
}

type lockAnalysis struct {
	m        *Module
	scope    map[*ssa.Function]bool
	summary  map[*ssa.Function]*lockEffect
	inSumm   map[*ssa.Function]bool
	entry    map[*ssa.Function]lockSet // nil entry = not yet constrained (TOP)
	root     map[*ssa.Function]bool
	at       map[ssa.Instruction]lockSet // lockset immediately before the instruction
	atReplay map[ssa.Instruction]lockSet // for defers: lockset when the deferred call actually runs (intersection over exits)
	atExit   map[*ssa.Function]lockSet
	edges    []lockEdge
	syncCall map[*ssa.Function][]syncSite // closures run synchronously at a call site
	acquired map[*ssa.Function][]lockAcq
	trans    map[*ssa.Function]map[string]bool // mayAcquire, memoised
}

type lockAcq struct {
	ID lockID
	At ssa.Instruction
}

type syncSite struct {
	At    ssa.Instruction
	Extra *lockID
}

// lockOpOf recognises sync.Mutex / sync.RWMutex operations.
func (la *lockAnalysis) lockOpOf(c *ssa.CallCommon) *lockOp {
	f := c.StaticCallee()
	if f == nil || f.Pkg == nil || f.Pkg.Pkg.Path() != "sync" || f.Signature.Recv() == nil {
		return nil
	}
	rn := recvNamed(f)
	if rn == nil || (rn.Obj().Name() != "Mutex" && rn.Obj().Name() != "RWMutex") {
		return nil
	}
	var op lockOp
	switch f.Name() {
	case "Lock":
		op = lockOp{ID: lockID{Mode: 'W'}, Acquire: true}
	case "Unlock":
		op = lockOp{ID: lockID{Mode: 'W'}}
	case "RLock":
		op = lockOp{ID: lockID{Mode: 'R'}, Acquire: true}
	case "RUnlock":
		op = lockOp{ID: lockID{Mode: 'R'}}
	default:
		return nil
	}
	if len(c.Args) == 0 {
		return nil
	}
	name, recv := lockName(c.Args[0])
	if name == "" {
		return nil
	}
	op.ID.Name = name
	op.Recv = recv
	return &op
}

// lockName: abstract identity of the lock whose address is v.
func lockName(v ssa.Value) (string, ssa.Value) {
	switch x := v.(type) {
	case *ssa.FieldAddr:
		pt, ok := x.X.Type().Underlying().(*types.Pointer)
		if !ok {
			return "", nil
		}
		n, ok := types.Unalias(pt.Elem()).(*types.Named)
		if !ok {
			return "", nil
		}
		if home, ok := lockHome[n]; ok {
			// a lock inside a wrapper type: named after the one field that holds the wrapper
			recv := x.X
			if fa, ok := x.X.(*ssa.FieldAddr); ok {
				recv = fa.X
			}
			return home, recv
		}
		return tname(n.Obj()) + "." + fieldName(x.X.Type(), x.Field), x.X
	case *ssa.Global:
		return "global:" + x.Name(), nil
	}
	return "", nil
}

func newLockAnalysis(m *Module, pkgs ...string) *lockAnalysis {
	la := &lockAnalysis{m: m, scope: map[*ssa.Function]bool{}, summary: map[*ssa.Function]*lockEffect{}, inSumm: map[*ssa.Function]bool{},
		entry: map[*ssa.Function]lockSet{}, root: map[*ssa.Function]bool{}, at: map[ssa.Instruction]lockSet{}, atReplay: map[ssa.Instruction]lockSet{}, atExit: map[*ssa.Function]lockSet{},
		syncCall: map[*ssa.Function][]syncSite{}, acquired: map[*ssa.Function][]lockAcq{}}
	inPkg := map[string]bool{}
	for _, p := range pkgs {
		inPkg[p] = true
	}
	var fns []*ssa.Function
	for _, f := range m.funcs() {
		if f.Pkg != nil && inPkg[f.Pkg.Pkg.Path()] && f.Synthetic == "" {
			la.scope[f] = true
			fns = append(fns, f)
		}
	}
	// closures run synchronously by a library call at a site inherit that site's lockset
	for _, f := range fns {
		for _, ci := range calls(f) {
			if _, isGo := ci.(*ssa.Go); isGo {
				continue
			}
			cal := ci.Common().StaticCallee()
			if cal == nil {
				continue
			}
			var extra *lockID
			syncLib := false
			switch cal.String() {
			case "sort.Slice", "sort.SliceStable", "sort.Sort", "sort.Stable":
				syncLib = true
			case "(*sync.Once).Do":
				syncLib = true
				if name, _ := lockName(ci.Common().Args[0]); name != "" {
					extra = &lockID{"once:" + name, 'W'}
				}
			}
			if o := cal.Origin(); o != nil && o.Pkg != nil && o.Pkg.Pkg.Path() == "slices" && strings.HasPrefix(o.Name(), "Sort") {
				syncLib = true
			}
			if !syncLib {
				continue
			}
			for _, a := range ci.Common().Args {
				if g := closureFn(a); g != nil && la.scope[g] {
					la.syncCall[g] = append(la.syncCall[g], syncSite{At: ci, Extra: extra})
				}
			}
		}
	}
	// roots: no static caller in scope and not run synchronously, or used as a value elsewhere
	for _, f := range fns {
		if len(la.syncCall[f]) > 0 {
			continue
		}
		static := 0
		for _, cs := range m.callersOf(f) {
			if _, isGo := cs.Instr.(*ssa.Go); isGo {
				la.root[f] = true
				continue
			}
			static++
		}
		if static == 0 {
			la.root[f] = true
		}
		if f.Parent() == nil && len(m.funcRefs(f)) > 0 {
			la.root[f] = true // address taken: may be called from anywhere
		}
		if f.Parent() != nil && static == 0 {
			la.root[f] = true
		}
		// exported methods and functions are API entry points
		if f.Parent() == nil && token.IsExported(f.Name()) {
			la.root[f] = true
		}
	}
	for _, f := range fns {
		la.summarise(f)
	}
	// entry-state fixpoint
	for _, f := range fns {
		if la.root[f] {
			la.entry[f] = lockSet{}
		}
	}
	for iter := 0; iter < 20; iter++ {
		changed := false
		newEntry := map[*ssa.Function]lockSet{}
		la.edges = nil
		la.atReplay = map[ssa.Instruction]lockSet{}
		la.acquired = map[*ssa.Function][]lockAcq{}
		for _, f := range fns {
			e, ok := la.entry[f]
			if !ok {
				continue // unconstrained yet
			}
			la.run(f, e, true, func(callee *ssa.Function, st lockSet) {
				if !la.scope[callee] || la.root[callee] {
					return
				}
				if cur, ok := newEntry[callee]; ok {
					newEntry[callee] = intersect(cur, st)
				} else {
					newEntry[callee] = st.clone()
				}
			})
		}
		for f, e := range newEntry {
			old, ok := la.entry[f]
			if !ok || !equalSets(old, e) {
				la.entry[f] = e
				changed = true
			}
		}
		if !changed {
			break
		}
	}
	return la
}

func closureFn(v ssa.Value) *ssa.Function {
	switch x := v.(type) {
	case *ssa.MakeClosure:
		f, _ := x.Fn.(*ssa.Function)
		// a method value (x.m): the synthetic wrapper's body is one call of the method
		if f != nil && strings.HasPrefix(f.Synthetic, "bound method wrapper") {
			for _, b := range f.Blocks {
				for _, in := range b.Instrs {
					if ci, ok := in.(ssa.CallInstruction); ok {
						if g := ci.Common().StaticCallee(); g != nil {
							return g
						}
					}
				}
			}
		}
		return f
	case *ssa.Function:
		return x
	case *ssa.MakeInterface:
		return closureFn(x.X)
	case *ssa.ChangeType:
		return closureFn(x.X)
	}
	return nil
}

// summarise computes the net lock effect of f (entry-independent).
func (la *lockAnalysis) summarise(f *ssa.Function) *lockEffect {
	if s, ok := la.summary[f]; ok {
		return s
	}
	if la.inSumm[f] || !la.scope[f] {
		return &lockEffect{lockSet{}, lockSet{}}
	}
	la.inSumm[f] = true
	eff := la.run(f, lockSet{}, false, nil)
	delete(la.inSumm, f)
	la.summary[f] = eff
	return eff
}

type lstate struct {
	held     lockSet
	released lockSet // released although not held (net release of a caller's lock)
}

func (s lstate) clone() lstate { return lstate{s.held.clone(), s.released.clone()} }

func (la *lockAnalysis) apply(st *lstate, op *lockOp) {
	if op.Acquire {
		st.held[op.ID] = true
		delete(st.released, op.ID)
		return
	}
	if st.held[op.ID] {
		delete(st.held, op.ID)
	} else {
		st.released[op.ID] = true
	}
}

func (la *lockAnalysis) applyEffect(st *lstate, e *lockEffect) {
	for k := range e.releases {
		if st.held[k] {
			delete(st.held, k)
		} else {
			st.released[k] = true
		}
	}
	for k := range e.acquires {
		st.held[k] = true
		delete(st.released, k)
	}
}

// run analyses f with the given entry lockset.  When record is set, per-
// instruction locksets, lock-order edges and callee entry states are recorded.
func (la *lockAnalysis) run(f *ssa.Function, entry lockSet, record bool, onCall func(*ssa.Function, lockSet)) *lockEffect {
	if len(f.Blocks) == 0 {
		return &lockEffect{lockSet{}, lockSet{}}
	}
	in := map[*ssa.BasicBlock]*lstate{}
	e := lstate{entry.clone(), lockSet{}}
	in[f.Blocks[0]] = &e
	var exitStates []lstate
	work := []*ssa.BasicBlock{f.Blocks[0]}
	inWork := map[*ssa.BasicBlock]bool{f.Blocks[0]: true}
	// order of defers for replay
	var defers []*ssa.Defer
	for _, b := range f.Blocks {
		for _, i := range b.Instrs {
			if d, ok := i.(*ssa.Defer); ok {
				defers = append(defers, d)
			}
		}
	}
	visits := 0
	final := map[*ssa.BasicBlock]*lstate{}
	for len(work) > 0 && visits < 5000 {
		visits++
		b := work[0]
		work = work[1:]
		inWork[b] = false
		st := in[b].clone()
		final[b] = in[b]
		for _, i := range b.Instrs {
			la.step(f, i, &st, defers, false, nil)
		}
		if isExit(b) {
			continue
		}
		for _, s := range b.Succs {
			old, ok := in[s]
			var n lstate
			if !ok {
				n = st.clone()
			} else {
				n = lstate{intersect(old.held, st.held), intersect(old.released, st.released)}
				if equalSets(n.held, old.held) && equalSets(n.released, old.released) {
					continue
				}
			}
			in[s] = &n
			if !inWork[s] {
				inWork[s] = true
				work = append(work, s)
			}
		}
	}
	// final pass with recording
	for _, b := range f.Blocks {
		s0, ok := in[b]
		if !ok {
			continue // unreachable
		}
		st := s0.clone()
		for _, i := range b.Instrs {
			la.step(f, i, &st, defers, record, onCall)
		}
		if isExit(b) {
			exitStates = append(exitStates, st)
		}
	}
	eff := &lockEffect{lockSet{}, lockSet{}}
	var heldAll, relAll lockSet
	for _, x := range exitStates {
		heldAll = intersect(heldAll, x.held)
		relAll = intersect(relAll, x.released)
	}
	for k := range heldAll {
		if !entry[k] {
			eff.acquires[k] = true
		}
	}
	for k := range relAll {
		eff.releases[k] = true
	}
	for k := range entry {
		if heldAll != nil && !heldAll[k] {
			// released a lock held at entry on some path; must-release only if on all paths
			allRel := true
			for _, x := range exitStates {
				if x.held[k] {
					allRel = false
				}
			}
			if allRel {
				eff.releases[k] = true
			}
		}
	}
	if record {
		la.atExit[f] = heldAll
	}
	return eff
}

func (la *lockAnalysis) step(f *ssa.Function, i ssa.Instruction, st *lstate, defers []*ssa.Defer, record bool, onCall func(*ssa.Function, lockSet)) {
	if record {
		la.at[i] = st.held.clone()
	}
	switch x := i.(type) {
	case *ssa.Call:
		la.doCall(f, x, x.Common(), st, record, onCall)
	case *ssa.Go:
		// new goroutine: callee starts with the empty set (it is a root)
	case *ssa.Defer:
		// effect happens at RunDefers
	case *ssa.RunDefers:
		// replay registered defers in LIFO order: those that dominate this point
		for k := len(defers) - 1; k >= 0; k-- {
			d := defers[k]
			if domInstr(d, x) {
				if record {
					if cur, ok := la.atReplay[d]; ok {
						la.atReplay[d] = intersect(cur, st.held)
					} else {
						la.atReplay[d] = st.held.clone()
					}
				}
				la.doCall(f, d, d.Common(), st, record, onCall)
			} else if instrCanReach(d, x) {
				// conditionally registered: a may-release drops the lock from the must set
				if op := la.lockOpOf(d.Common()); op != nil && !op.Acquire {
					delete(st.held, op.ID)
				}
			}
		}
	}
}

func (la *lockAnalysis) doCall(f *ssa.Function, at ssa.Instruction, c *ssa.CallCommon, st *lstate, record bool, onCall func(*ssa.Function, lockSet)) {
	if op := la.lockOpOf(c); op != nil {
		if record && op.Acquire {
			for h := range st.held {
				la.edges = append(la.edges, lockEdge{h.Name, op.ID.Name, at, f})
			}
			la.acquired[f] = append(la.acquired[f], lockAcq{op.ID, at})
		}
		la.apply(st, op)
		return
	}
	cal := la.m.calleeCHA(c)
	if cal == nil {
		return
	}
	// synchronous library calls running a closure
	if !la.scope[cal] {
		for _, a := range c.Args {
			if g := closureFn(a); g != nil && la.scope[g] {
				for _, ss := range la.syncCall[g] {
					if ss.At == at {
						s2 := st.held.clone()
						if ss.Extra != nil {
							if record {
								for h := range st.held {
									la.edges = append(la.edges, lockEdge{h.Name, ss.Extra.Name, at, f})
								}
							}
							s2[*ss.Extra] = true
						}
						if record && onCall != nil {
							// the closure is not a root: constrain its entry directly
							la.constrainSync(g, s2)
						}
					}
				}
			}
		}
		return
	}
	if record && onCall != nil {
		onCall(cal, st.held)
	}
	la.applyEffect(st, la.summarise(cal))
}

// constrainSync intersects the entry state of a synchronously-run closure.
func (la *lockAnalysis) constrainSync(g *ssa.Function, s lockSet) {
	if la.root[g] {
		return
	}
	if cur, ok := la.entry[g]; ok {
		n := intersect(cur, s)
		la.entry[g] = n
	} else {
		la.entry[g] = s.clone()
	}
}

// heldAt: the must-lockset immediately before instruction i (nil if i was not analysed / unreachable).
func (la *lockAnalysis) heldAt(i ssa.Instruction) lockSet { return la.at[i] }

func (la *lockAnalysis) holds(i ssa.Instruction, name string, mode byte) bool {
	s := la.at[i]
	if s == nil {
		return false
	}
	if mode == 0 {
		return s.has(name)
	}
	return s[lockID{name, mode}]
}

func (la *lockAnalysis) describe(i ssa.Instruction) string {
	s := la.at[i]
	if s == nil {
		return "(not reached by the lock analysis)"
	}
	return s.String()
}

// ---------------------------------------------------------------- L1 / L2 (C01, C06)

var adaptLocks *lockAnalysis

func adaptationLocks(c *Ctx) *lockAnalysis {
	if adaptLocks == nil || adaptLocks.m != c.M {
		adaptLocks = newLockAnalysis(c.M, pkgAdapt)
	}
	return adaptLocks
}

// relayFamily: methods of *plugin that invoke a method of *pluginType (the RPC implementations).
func relayFamily(m *Module) []*ssa.Function {
	var out []*ssa.Function
	for _, f := range m.methodsOf(pkgAdapt, "plugin") {
		for _, ci := range calls(f) {
			if g := m.callee(ci.Common()); g != nil {
				if rn := recvNamed(g); rn != nil && tname(rn.Obj()) == "pluginType" && rn.Obj().Pkg().Path() == pkgAdapt && g.Signature.Results().Len() > 0 && !strings.HasPrefix(g.Name(), "is") {
					out = append(out, f)
					break
				}
			}
		}
	}
	return out
}

// requestRelays: relays that the request methods of the adaptation call for the
// elements of the plugin list (i.e. not configure / synchronize, which run during registration).
func requestRelays(m *Module) []*ssa.Function {
	var out []*ssa.Function
	for _, f := range relayFamily(m) {
		isReq := false
		for _, cs := range m.callersOf(f) {
			rn := recvNamed(cs.Caller)
			if rn == nil || tname(rn.Obj()) != "Adaptation" {
				continue
			}
			// called by a request method of the adaptation: for the elements of the plugin list, or of a copy of it
			if len(cs.Instr.Common().Args) > 0 {
				isReq = true
			}
		}
		if isReq {
			out = append(out, f)
		}
	}
	return out
}

func ruleL1(c *Ctx) {
	m := c.M
	c.rule("L1", "every read or write of the active plugin list, and every call of a request relay, happens with the adaptation lock held — in the function itself or in every caller up to an exported method or goroutine root", 20)
	la := adaptationLocks(c)
	adT := m.named(pkgAdapt, "Adaptation")
	ord := map[string]int{}
	for _, f := range m.funcsInPkg(pkgAdapt) {
		if f.Synthetic != "" {
			continue
		}
		for _, fa := range m.fieldAddrs(f, adT, "plugins") {
			base := funcKey(f) + "/plugins"
			ord[base]++
			key := fmt.Sprintf("%s#%d", base, ord[base])
			c.ok("L1", key, fa.Pos(), la.holds(fa, "Adaptation.Mutex", 'W'), fmt.Sprintf("access to Adaptation.plugins in %s is under the adaptation lock", funcKey(f)),
				"the plugin list is accessed with lockset "+la.describe(fa)+": concurrent requests or registrations can observe or corrupt a half-updated list")
		}
	}
	relays := map[*ssa.Function]bool{}
	for _, r := range requestRelays(m) {
		relays[r] = true
	}
	for _, f := range m.funcsInPkg(pkgAdapt) {
		for _, ci := range calls(f) {
			g := m.callee(ci.Common())
			if g == nil || !relays[g] {
				continue
			}
			base := funcKey(f) + "/" + g.Name()
			ord[base]++
			key := base
			if ord[base] > 1 {
				key = fmt.Sprintf("%s#%d", base, ord[base])
			}
			c.ok("L1", key, ci.Pos(), la.holds(ci, "Adaptation.Mutex", 'W'), fmt.Sprintf("relay %s is called from %s under the adaptation lock", g.Name(), funcKey(f)),
				"the relay is called with lockset "+la.describe(ci)+": requests are no longer serialised, plugins can see them in different orders")
		}
	}
}

// ruleL2: the per-request result does not escape the request method.
func ruleL2(c *Ctx) {
	m := c.M
	c.rule("L2", "request isolation: the value returned by a collect*Result constructor is used only locally in the request method (receiver of merge calls and response getters); it is not stored in a field, global, channel, closure or passed to a goroutine", 3)
	resT := m.named(pkgAdapt, "result")
	for _, f := range m.funcsInPkg(pkgAdapt) {
		for _, ci := range calls(f) {
			call, ok := ci.(*ssa.Call)
			if !ok {
				continue
			}
			pt, ok := call.Type().(*types.Pointer)
			if !ok {
				continue
			}
			if n, ok := pt.Elem().(*types.Named); !ok || n.Obj() != resT.Obj() {
				continue
			}
			if rn := recvNamed(f); rn != nil && rn.Obj() == resT.Obj() {
				continue
			}
			if f.Signature.Results().Len() == 1 && types.Identical(f.Signature.Results().At(0).Type(), call.Type()) {
				// a constructor delegating to another constructor
				continue
			}
			bad := ""
			for _, r := range *call.Referrers() {
				switch u := r.(type) {
				case *ssa.Call:
					if len(u.Call.Args) > 0 && u.Call.Args[0] == ssa.Value(call) && recvNamed(m.callee(u.Common())) != nil && recvNamed(m.callee(u.Common())).Obj() == resT.Obj() {
						continue
					}
					bad = "passed to " + m.calleeName(u.Common())
				case *ssa.DebugRef:
				default:
					bad = fmt.Sprintf("used by %T at %s", r, c.pos(r.Pos()))
				}
			}
			c.ok("L2", funcKey(f), call.Pos(), bad == "", fmt.Sprintf("the result collected in %s stays local to the request", funcKey(f)),
				"the per-request result escapes ("+bad+"): concurrent callers could receive results computed from each other's responses")
		}
	}
}

// transitiveEdges adds, for every call site in scope, edges from each lock
// held at the site to every lock the callee may acquire transitively (so that
// exported entry points, which are analysed with an empty entry set, still
// contribute the order in which their callers nest them).
// mayAcquire: for every function in scope, the names of the locks it may acquire, itself or through
// its callees (go statements excluded).
func (la *lockAnalysis) mayAcquire() (map[*ssa.Function]map[string]bool, func(ci ssa.CallInstruction) ([]*ssa.Function, string)) {
	callees := func(ci ssa.CallInstruction) (out []*ssa.Function, extra string) {
		c := ci.Common()
		if g := la.m.calleeCHA(c); g != nil {
			if la.scope[g] {
				out = append(out, g)
			} else {
				if g.String() == "(*sync.Once).Do" {
					if name, _ := lockName(c.Args[0]); name != "" {
						extra = "once:" + name
					}
				}
				for _, a := range c.Args {
					if h := closureFn(a); h != nil && la.scope[h] && len(la.syncCall[h]) > 0 {
						out = append(out, h)
					}
				}
			}
		}
		return
	}
	if la.trans != nil {
		return la.trans, callees
	}
	acq := map[*ssa.Function]map[string]bool{}
	var fns []*ssa.Function
	for f := range la.scope {
		fns = append(fns, f)
	}
	sort.Slice(fns, func(i, j int) bool { return fns[i].String() < fns[j].String() })
	for _, f := range fns {
		acq[f] = map[string]bool{}
		for _, a := range la.acquired[f] {
			acq[f][a.ID.Name] = true
		}
	}
	for changed := true; changed; {
		changed = false
		for _, f := range fns {
			for _, ci := range calls(f) {
				if _, isGo := ci.(*ssa.Go); isGo {
					continue
				}
				gs, extra := callees(ci)
				if extra != "" && !acq[f][extra] {
					acq[f][extra] = true
					changed = true
				}
				for _, g := range gs {
					for l := range acq[g] {
						if !acq[f][l] {
							acq[f][l] = true
							changed = true
						}
					}
				}
			}
		}
	}
	la.trans = acq
	return acq, callees
}

func (la *lockAnalysis) transitiveEdges() []lockEdge {
	acq, callees := la.mayAcquire()
	var fns []*ssa.Function
	for f := range la.scope {
		fns = append(fns, f)
	}
	sort.Slice(fns, func(i, j int) bool { return fns[i].String() < fns[j].String() })
	var out []lockEdge
	for _, f := range fns {
		for _, ci := range calls(f) {
			if _, isGo := ci.(*ssa.Go); isGo {
				continue
			}
			held := la.at[ci]
			if _, isDefer := ci.(*ssa.Defer); isDefer {
				held = la.atReplay[ci]
			}
			if len(held) == 0 {
				continue
			}
			gs, extra := callees(ci)
			targets := map[string]bool{}
			if extra != "" {
				targets[extra] = true
			}
			for _, g := range gs {
				for l := range acq[g] {
					targets[l] = true
				}
			}
			for h := range held {
				for t := range targets {
					out = append(out, lockEdge{h.Name, t, ci, f})
				}
			}
		}
	}
	return out
}
