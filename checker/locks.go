package main

func ruleL1(c *Ctx) {}
func ruleL2(c *Ctx) {}
