package main

import (
	"fmt"
	"go/token"
	"go/types"
	"strings"

	"golang.org/x/tools/go/ssa"
)

func init() {
	register("C10", &propInfo{
		run: func(c *Ctx) {
			ruleM1(c)
			ruleM2(c)
			ruleM3(c)
			ruleM4(c)
			ruleM4b(c)
			ruleM5(c)
			ruleM6(c)
			ruleX1(c) // a frame that was written only in part ends the mux: nothing is ever written after a truncated frame
		},
		explanation: "Decides the framing structure of the multiplexer: every write to the trunk happens in mux.write with the trunk write lock held, the lock being taken before the chunk loop and released only by the deferred unlock (so header, payload and all chunks of one logical write are contiguous on the trunk); the length written into the header, the upper bound of the payload slice and the advance of the remaining data are one and the same value, the id written is the connection's, and both slice expressions are proved in bounds inductively; writer and reader use the same byte order and the same constant header sub-ranges for id and length; there is exactly one reader goroutine, started where the mux is created, and it is the only code that reads the trunk and the only sender on the per-connection queues, whose only receiver is conn.Read; the buffer queued is the buffer read and it is queued on the connection looked up under the header's id; the raw trunk handed out by Trunk() is used only for the peer-credential lookup; Read copies out of the dequeued message and returns its length. Every trunk read is a full read (io.ReadFull); only Open adds to and only conn.Close removes from the connection table. The id lookup in Open is made under the exclusive lock the registration is made under; a partial trunk write ends the mux whatever the error. Only write, reader and Close touch the trunk.",
		notDecided: []string{
			"what the peer wrote; reassembly of oversized payloads above the mux",
			"kernel socket semantics",
			"the queue-length assumption (receiver keeps up)",
		},
	})
}

// trunkIO finds interface calls of method name on a value loaded from mux.trunk in pkg multiplex.
func trunkUses(m *Module) (writes, reads []ssa.CallInstruction) {
	for _, f := range m.funcsInPkg(pkgMux) {
		for _, ci := range calls(f) {
			cc := ci.Common()
			if cc.IsInvoke() {
				a := m.ap(cc.Value)
				if a.PathString() == "trunk" && cc.Method.Name() == "Write" {
					writes = append(writes, ci)
				}
				if a.PathString() == "trunk" && cc.Method.Name() == "Read" {
					reads = append(reads, ci)
				}
				continue
			}
			if g := m.callee(cc); g != nil && (g.String() == "io.ReadFull" || g.String() == "io.ReadAtLeast" || g.String() == "io.Copy") {
				for _, arg := range cc.Args {
					if mi, ok := arg.(*ssa.MakeInterface); ok {
						arg = mi.X
					}
					if ct, ok := arg.(*ssa.ChangeInterface); ok {
						arg = ct.X
					}
					if m.ap(arg).PathString() == "trunk" {
						reads = append(reads, ci)
					}
				}
			}
		}
	}
	return
}

func ruleM1(c *Ctx) {
	m := c.M
	c.rule("M1", "one lock per logical write: every write to the trunk is in mux.write with mux.writeLock held; the lock is acquired before the chunk loop and released only by the deferred unlock", 3)
	la := allLocks(c)
	wr := m.method(pkgMux, "mux", "write")
	writes, _ := trunkUses(m)
	for i, w := range writes {
		f := w.Parent()
		key := fmt.Sprintf("trunk-write#%d", i+1)
		c.ok("M1", key, w.Pos(), f == wr && la.holds(w, "mux.writeLock", 'W'), "the trunk write in "+funcKey(f)+" is made by mux.write under the trunk write lock",
			"the trunk is written outside mux.write or with lockset "+la.describe(w)+": frames of concurrent writers interleave on the trunk")
	}
	if len(writes) < 2 {
		c.violate("M1", "trunk-writes", wr.Pos(), "header and payload are written to the trunk", fmt.Sprintf("found %d trunk writes", len(writes)))
	}
	// lock taken once, before the loop, never released explicitly
	bad := ""
	nAcq := 0
	for _, ci := range calls(wr) {
		op := la.lockOpOf(ci.Common())
		if op == nil || op.ID.Name != "mux.writeLock" {
			continue
		}
		if op.Acquire {
			nAcq++
			if inLoop(ci.Block()) {
				bad = "the write lock is acquired inside the chunk loop"
			}
		} else if _, isDefer := ci.(*ssa.Defer); !isDefer {
			bad = "the write lock is released explicitly (between chunks): another connection's frame can split an oversized payload"
		}
	}
	if nAcq != 1 && bad == "" {
		bad = fmt.Sprintf("%d acquisitions of the write lock", nAcq)
	}
	c.ok("M1", "lock-span", wr.Pos(), bad == "", "mux.write holds the write lock from before the first chunk to its return", bad)
}

func ruleM2(c *Ctx) {
	m := c.M
	c.rule("M2", "frame consistency: in the chunk loop the length put into the header, the upper bound of the payload slice and the lower bound of the advance are the same value; the id put into the header is the id parameter; both slice expressions are proved in bounds by induction", 5)
	wr := m.method(pkgMux, "mux", "write")
	var putLen, putID ssa.Value
	var putPos token.Pos
	for _, ci := range calls(wr) {
		g := m.callee(ci.Common())
		if g == nil || g.Name() != "PutUint32" {
			continue
		}
		args := ci.Common().Args
		sl, ok := args[1].(*ssa.Slice)
		if !ok {
			continue
		}
		lo, _ := constInt(sl.Low)
		v := stripConv(args[2])
		if lo == 0 {
			putID = v
		} else {
			putLen = v
			putPos = ci.Pos()
		}
	}
	var payload, adv *ssa.Slice
	for _, b := range wr.Blocks {
		for _, in := range b.Instrs {
			sl, ok := in.(*ssa.Slice)
			if !ok {
				continue
			}
			if _, isSlice := sl.X.Type().Underlying().(*types.Slice); !isSlice {
				continue
			}
			if sl.Low == nil && sl.High != nil {
				payload = sl
			}
			if sl.High == nil && sl.Low != nil {
				adv = sl
			}
		}
	}
	okLen := putLen != nil && payload != nil && adv != nil && payload.High == putLen && adv.Low == putLen && payload.X == adv.X
	c.ok("M2", "length", putPos, okLen, "header length, payload slice bound and advance are one value",
		"the length announced in the header differs from the number of bytes written or from the advance of the remaining data: the reader's framing is off for everything that follows")
	okID := putID != nil && len(wr.Params) >= 2 && putID == ssa.Value(wr.Params[1])
	c.ok("M2", "id", putPos, okID, "the connection id put into the header is mux.write's id parameter", "the header carries another id: data is delivered to the wrong logical connection")
	// the payload written is the payload slice
	okW := false
	writes, _ := trunkUses(m)
	for _, w := range writes {
		if len(w.Common().Args) == 1 && payload != nil && w.Common().Args[0] == ssa.Value(payload) {
			okW = true
		}
	}
	c.ok("M2", "payload", putPos, okW, "the bytes written after the header are exactly data[:size]", "the payload written is not the slice whose length was announced")
	for _, sb := range proveSliceBounds(wr) {
		if _, isSlice := sb.Slice.X.Type().Underlying().(*types.Slice); !isSlice {
			continue
		}
		detail := ""
		if !sb.OK {
			detail = fmt.Sprintf("cannot prove %s <= len(%s): %s", sb.V.Name(), sb.Slice.X.Name(), strings.Join(sb.Trace, "; "))
		}
		c.ok("M2", "bounds/"+sb.Which, sb.Slice.Pos(), sb.OK, "slice "+sb.Which+" bound in mux.write is within the data on every path", detail)
	}
	// return value: the whole logical write is reported
	okR := false
	for _, r := range returnsOf(wr) {
		for _, v := range returnValues(r, 0) {
			if ln, ok := isBuiltinCall(v, "len"); ok && ln.Call.Args[0] == ssa.Value(wr.Params[2]) {
				okR = true
			}
		}
	}
	c.ok("M2", "result", wr.Pos(), okR, "a successful write reports len(buf) bytes written", "the successful return does not report the full length")
}

type hdrUse struct {
	fn     string
	order  string
	lo, hi int64
	what   string // "id" or "len"
	pos    token.Pos
}

func headerUses(m *Module) []hdrUse {
	var out []hdrUse
	for _, fn := range []*ssa.Function{m.method(pkgMux, "mux", "write"), m.method(pkgMux, "mux", "reader")} {
		for _, ci := range calls(fn) {
			g := m.callee(ci.Common())
			if g == nil || (g.Name() != "PutUint32" && g.Name() != "Uint32") || g.Pkg == nil || g.Pkg.Pkg.Path() != "encoding/binary" {
				continue
			}
			args := ci.Common().Args
			order := ""
			if u, ok := args[0].(*ssa.UnOp); ok {
				if gl, ok := u.X.(*ssa.Global); ok {
					order = gl.Name()
				}
			}
			sl, ok := args[1].(*ssa.Slice)
			if !ok {
				continue
			}
			lo, _ := constInt(sl.Low)
			hi, okh := constInt(sl.High)
			if !okh {
				hi = -1
				// hdr[4:] of an array: up to the array's length
				if sl.High == nil {
					if pt, ok := sl.X.Type().Underlying().(*types.Pointer); ok {
						if arr, ok := pt.Elem().Underlying().(*types.Array); ok {
							hi = arr.Len()
						}
					}
				}
			}
			u := hdrUse{fn: fn.Name(), order: order, lo: lo, hi: hi, pos: ci.Pos()}
			if g.Name() == "PutUint32" {
				v := stripConv(args[2])
				if len(fn.Params) >= 2 && v == ssa.Value(fn.Params[1]) {
					u.what = "id"
				} else {
					u.what = "len"
				}
			} else {
				// reader: what is the value used for?
				call := ci.(*ssa.Call)
				u.what = "?"
				for _, r := range *call.Referrers() {
					switch x := r.(type) {
					case *ssa.Convert, *ssa.ChangeType:
						v := x.(ssa.Value)
						if n, ok := types.Unalias(v.Type()).(*types.Named); ok && n.Obj().Name() == "ConnID" {
							u.what = "id"
						}
						if b, ok := v.Type().Underlying().(*types.Basic); ok && b.Kind() == types.Int {
							u.what = "len"
						}
					}
				}
			}
			out = append(out, u)
		}
	}
	return out
}

func ruleM3(c *Ctx) {
	m := c.M
	c.rule("M3", "layout agreement: writer and reader use the same byte order object and the same constant sub-ranges of the header for the connection id and for the payload length; the header array has the constant header length", 4)
	uses := headerUses(m)
	byKind := map[string][]hdrUse{}
	for _, u := range uses {
		byKind[u.what] = append(byKind[u.what], u)
	}
	for _, k := range []string{"id", "len"} {
		us := byKind[k]
		ok2 := len(us) == 2 && us[0].fn != us[1].fn && us[0].order == us[1].order && us[0].order != "" && us[0].lo == us[1].lo && us[0].hi == us[1].hi && us[0].hi-us[0].lo == 4
		var p token.Pos
		detail := fmt.Sprintf("found %d uses", len(us))
		if len(us) > 0 {
			p = us[0].pos
		}
		if len(us) == 2 {
			detail = fmt.Sprintf("writer: %s[%d:%d], reader: %s[%d:%d] — the two ends disagree on where the %s is in the header or on its byte order", us[0].order, us[0].lo, us[0].hi, us[1].order, us[1].lo, us[1].hi, k)
		}
		c.ok("M3", k, p, ok2, fmt.Sprintf("writer and reader agree on byte order and header range of the %s", k), detail)
	}
	// the two ranges are disjoint and cover the header
	if len(byKind["id"]) == 2 && len(byKind["len"]) == 2 {
		a, b := byKind["id"][0], byKind["len"][0]
		c.ok("M3", "ranges", a.pos, (a.hi <= b.lo || b.hi <= a.lo) && a.lo+b.lo == 4 && a.hi+b.hi == 12, "id and length occupy disjoint halves of the 8-byte header", "id and length ranges overlap or do not cover the header")
	}
	// header length constant equals the array length used by both
	hl := m.pkg(pkgMux).Pkg.Scope().Lookup("headerLen")
	okH := false
	if cst, ok := hl.(*types.Const); ok && cst.Val().String() == "8" {
		okH = true
	}
	c.ok("M3", "headerLen", token.NoPos, okH, "the header length constant is 8 (4-byte id, 4-byte length)", "headerLen is not 8")
}

func ruleM4(c *Ctx) {
	m := c.M
	c.rule("M4", "single reader, FIFO: mux.reader is started by exactly one go statement, in newMux; the trunk is read only there; sends on a connection's queue occur only there and receives only in conn.Read; the buffer queued is the buffer the payload was read into; the queue is that of the connection looked up under the header's id", 6)
	rd := m.method(pkgMux, "mux", "reader")
	nm := m.fn(pkgMux, "newMux")
	var gos []callSite
	for _, cs := range m.callersOf(rd) {
		gos = append(gos, cs)
	}
	okGo := len(gos) == 1 && gos[0].Caller == nm && !inLoop(gos[0].Instr.Block())
	if okGo {
		if _, isGo := gos[0].Instr.(*ssa.Go); !isGo {
			okGo = false
		}
	}
	c.ok("M4", "one-reader", rd.Pos(), okGo && len(m.funcRefs(rd)) == 0, "exactly one reader goroutine per mux, started in newMux",
		fmt.Sprintf("%d call sites of mux.reader (want one `go` in newMux, outside a loop): two readers split frames between them", len(gos)))
	_, reads := trunkUses(m)
	for i, r := range reads {
		c.ok("M4", fmt.Sprintf("trunk-read#%d", i+1), r.Pos(), r.Parent() == rd, "the trunk is read only by the reader goroutine", "the trunk is read in "+funcKey(r.Parent())+": bytes are stolen from the frame stream")
	}
	if len(reads) < 2 {
		c.violate("M4", "trunk-reads", rd.Pos(), "header and payload are read from the trunk", fmt.Sprintf("found %d trunk reads", len(reads)))
	}
	// nothing else touches the shared trunk: a logical connection's own methods (deadlines, …) must not act on it
	muxClose := m.method(pkgMux, "mux", "Close")
	allowed := map[*ssa.Function]bool{rd: true, m.method(pkgMux, "mux", "write"): true, muxClose: true}
	for _, ci := range calls(muxClose) {
		// the body Close hands to its once (a closure or a method value)
		if g := m.callee(ci.Common()); g != nil && g.String() == "(*sync.Once).Do" && len(ci.Common().Args) == 2 {
			if body := closureFn(ci.Common().Args[1]); body != nil {
				allowed[body] = true
			}
		}
	}
	for _, g := range m.funcsInPkg(pkgMux) {
		root := g
		for root.Parent() != nil {
			root = root.Parent()
		}
		if allowed[root] {
			continue
		}
		for _, ci := range calls(g) {
			cc := ci.Common()
			if cc.IsInvoke() && isTrunkPath(m.ap(cc.Value)) {
				c.violate("M4", "trunk-user/"+funcKey(g)+"/"+cc.Method.Name(), ci.Pos(), "the trunk is used only by the multiplexer's write, reader and Close",
					funcKey(g)+" calls "+cc.Method.Name()+" on the shared trunk: what one logical connection does there (a deadline, a close) hits every other connection's stream")
			}
		}
	}
	// every read of the trunk is a complete read of the buffer handed in: a stream transport may return fewer bytes
	for i, r := range reads {
		full := false
		if g := m.callee(r.Common()); g != nil && g.String() == "io.ReadFull" {
			full = true
		}
		c.ok("M4", fmt.Sprintf("trunk-read#%d/full", i+1), r.Pos(), full, "the trunk read fills its whole buffer (io.ReadFull)",
			"the trunk is read with a plain Read (or a read that may return early): when the transport delivers the header or payload in pieces the rest of the buffer keeps stale bytes, the frame stream loses synchronisation and frames are dropped, misrouted or mis-sized")
	}
	// channel operations on conn.readC
	connT := m.named(pkgMux, "conn")
	cRead := m.method(pkgMux, "conn", "Read")
	isReadC := func(v ssa.Value) bool {
		u, ok := v.(*ssa.UnOp)
		if !ok {
			return false
		}
		fa, ok := u.X.(*ssa.FieldAddr)
		return ok && isFieldOf(fa, connT, "readC")
	}
	var sentBuf, sentChan ssa.Value
	var sendPos token.Pos
	nSend, nRecv := 0, 0
	for _, f := range m.funcsInPkg(pkgMux) {
		for _, b := range f.Blocks {
			for _, in := range b.Instrs {
				switch x := in.(type) {
				case *ssa.Send:
					if isReadC(x.Chan) {
						nSend++
						c.ok("M4", "send/"+funcKey(f), x.Pos(), f == rd, "messages are queued only by the reader", "a send on a connection's queue outside the reader: order of delivery is no longer the order on the trunk")
						sentBuf, sentChan, sendPos = x.X, x.Chan, x.Pos()
					}
				case *ssa.Select:
					for _, st := range x.States {
						if !isReadC(st.Chan) {
							continue
						}
						if st.Dir == types.SendOnly {
							nSend++
							c.ok("M4", "send/"+funcKey(f), x.Pos(), f == rd, "messages are queued only by the reader", "a send on a connection's queue outside the reader")
							sentBuf, sentChan, sendPos = st.Send, st.Chan, x.Pos()
						} else {
							nRecv++
							c.ok("M4", "recv/"+funcKey(f), x.Pos(), f == cRead, "queued messages are dequeued only by conn.Read", "a receive from a connection's queue outside conn.Read: messages are taken out of the stream")
						}
					}
				case *ssa.UnOp:
					if x.Op == token.ARROW && isReadC(x.X) {
						nRecv++
						c.ok("M4", "recv/"+funcKey(f), x.Pos(), f == cRead, "queued messages are dequeued only by conn.Read", "a receive from a connection's queue outside conn.Read")
					}
				}
			}
		}
	}
	if nSend != 1 || nRecv != 1 {
		c.violate("M4", "queue-ops", rd.Pos(), "one sender and one receiver site per queue", fmt.Sprintf("%d send sites, %d receive sites", nSend, nRecv))
		return
	}
	// the buffer sent is the buffer the payload was read into
	okBuf := false
	for _, r := range reads {
		for _, a := range r.Common().Args {
			if a == sentBuf {
				okBuf = true
			}
		}
	}
	c.ok("M4", "buffer", sendPos, okBuf, "the buffer queued is the buffer the payload was read into", "the value queued is not the payload buffer")
	// the connection is conns[ConnID(cid)] with cid from the header's id range
	okConn := false
	ca := m.ap(sentChan)
	if lk := lookupOf(ca.Root); lk != nil || true {
		// root of the channel's access path: Extract(Lookup(m.conns, ConnID(cid)))
		root := sentChan
		for i := 0; i < 6; i++ {
			switch x := root.(type) {
			case *ssa.UnOp:
				root = x.X
				continue
			case *ssa.FieldAddr:
				root = x.X
				continue
			}
			break
		}
		if l := lookupOf(root); l != nil {
			ma := m.ap(l.X)
			if ma.PathString() == "conns" {
				k := l.Index
				for {
					if cv, ok := k.(*ssa.Convert); ok {
						k = cv.X
						continue
					}
					if cv, ok := k.(*ssa.ChangeType); ok {
						k = cv.X
						continue
					}
					break
				}
				for _, src := range valueSources(k, l, 0) {
					if call, ok := src.(*ssa.Call); ok {
						if g := m.callee(call.Common()); g != nil && g.Name() == "Uint32" {
							if sl, ok := call.Call.Args[1].(*ssa.Slice); ok {
								if lo, _ := constInt(sl.Low); lo == 0 {
									okConn = true
								}
							}
						}
					}
				}
			}
		}
	}
	c.ok("M4", "target", sendPos, okConn, "the message is queued on the connection registered under the id read from the header", "the queue is not that of conns[id from header bytes 0..4]")
	// payload buffer length is the length read from the header
	okLen := false
	for _, b := range rd.Blocks {
		for _, in := range b.Instrs {
			if ms, ok := in.(*ssa.MakeSlice); ok && ssa.Value(ms) == sentBuf {
				l := ms.Len
				for {
					if cv, ok := l.(*ssa.Convert); ok {
						l = cv.X
						continue
					}
					break
				}
				for _, src := range valueSources(l, ms, 0) {
					if call, ok := src.(*ssa.Call); ok {
						if g := m.callee(call.Common()); g != nil && g.Name() == "Uint32" {
							if sl, ok := call.Call.Args[1].(*ssa.Slice); ok {
								if lo, _ := constInt(sl.Low); lo == 4 {
									okLen = true
								}
							}
						}
					}
				}
			}
		}
	}
	c.ok("M4", "payload-length", sendPos, okLen, "the payload buffer has exactly the length announced in the header", "the payload buffer's length is not the header's length field")
}

func ruleM4b(c *Ctx) {
	c.rule("M4b", "raw trunk does not leak: every caller of Mux.Trunk() in the repository uses the result only as the argument of the peer-credential lookup; no Read or Write is invoked on it", 1)
	n := checkTrunkCallers(c, c.M, "")
	if c.Tier == "thorough" {
		for _, sub := range pluginModules(c.Repo) {
			mm, err := loadModule(sub, false, nil)
			if err != nil {
				c.note("M4b: module %s not loaded (%v)", sub, err)
				continue
			}
			n += checkTrunkCallers(c, mm, relMod(c.Repo, sub)+":")
		}
	}
	c.note("M4b: %d callers of Trunk()", n)
}

func checkTrunkCallers(c *Ctx, m *Module, prefix string) int {
	n := 0
	for _, f := range m.funcs() {
		if f.Pkg == nil || !strings.HasPrefix(f.Pkg.Pkg.Path(), modPath) || strings.HasSuffix(f.Pkg.Pkg.Path(), "/multiplex") && recvNamed(f) != nil && tname(recvNamed(f).Obj()) == "mux" {
			continue
		}
		for _, ci := range calls(f) {
			cc := ci.Common()
			isTrunk := cc.IsInvoke() && cc.Method.Name() == "Trunk" && cc.Method.Pkg() != nil && cc.Method.Pkg().Path() == pkgMux
			if g := m.callee(cc); g != nil && g.Name() == "Trunk" && g.Pkg != nil && g.Pkg.Pkg.Path() == pkgMux {
				isTrunk = true
			}
			if !isTrunk {
				continue
			}
			n++
			call, ok := ci.(*ssa.Call)
			bad := ""
			if !ok {
				bad = "Trunk() called with go/defer"
			} else {
				for _, r := range *call.Referrers() {
					switch u := r.(type) {
					case *ssa.Call:
						g := m.callee(u.Common())
						if g == nil || !strings.Contains(strings.ToLower(g.Name()), "peer") {
							bad = "the trunk is passed to " + m.calleeName(u.Common())
						}
						if u.Common().IsInvoke() && u.Common().Value == ssa.Value(call) {
							bad = "method " + u.Common().Method.Name() + " is invoked on the raw trunk"
						}
					case *ssa.DebugRef:
					default:
						bad = fmt.Sprintf("the trunk escapes (%T)", r)
					}
				}
			}
			c.ok("M4b", prefix+funcKey(f), ci.Pos(), bad == "", "the trunk obtained in "+funcKey(f)+" is only used to look up the peer's credentials", bad+": bytes read from or written to the raw trunk corrupt every multiplexed stream")
		}
	}
	return n
}

func ruleM5(c *Ctx) {
	m := c.M
	c.rule("M5", "copy out: conn.Read copies from the dequeued message into the caller's buffer and returns the message's length; a message larger than the buffer is refused, not truncated silently", 2)
	rd := m.method(pkgMux, "conn", "Read")
	var msg ssa.Value
	for _, b := range rd.Blocks {
		for _, in := range b.Instrs {
			if ex, ok := in.(*ssa.Extract); ok {
				if sel, ok := ex.Tuple.(*ssa.Select); ok {
					// recv values of the select: index 2.. in state order
					idx := 2
					for _, st := range sel.States {
						if st.Dir == types.RecvOnly {
							if _, isBytes := ex.Type().Underlying().(*types.Slice); isBytes && ex.Index == idx {
								msg = ex
							}
							idx++
						}
					}
				}
			}
		}
	}
	okCopy, okLen := false, false
	var p token.Pos = rd.Pos()
	if msg != nil {
		srcs := func(v ssa.Value, at ssa.Instruction) bool {
			for _, s := range valueSources(v, at, 0) {
				if s == msg {
					return true
				}
			}
			return false
		}
		for _, ci := range calls(rd) {
			if cp, ok := ci.(*ssa.Call); ok {
				if b, ok := cp.Call.Value.(*ssa.Builtin); ok && b.Name() == "copy" {
					if cp.Call.Args[0] == ssa.Value(rd.Params[1]) && srcs(cp.Call.Args[1], cp) {
						okCopy = true
						p = cp.Pos()
					}
				}
			}
		}
		for _, r := range returnsOf(rd) {
			for _, v := range returnValues(r, 0) {
				if ln, ok := isBuiltinCall(v, "len"); ok && srcs(ln.Call.Args[0], ln) {
					for _, e := range returnValues(r, 1) {
						if isNilConst(e) {
							okLen = true
						}
					}
				}
			}
		}
	}
	c.ok("M5", "copy", p, okCopy, "Read copies the dequeued message into the caller's buffer", "the data returned is not the dequeued message")
	c.ok("M5", "length", p, okLen, "Read returns the dequeued message's length", "the length returned is not len(message)")
}

func stripConv(v ssa.Value) ssa.Value {
	for {
		switch x := v.(type) {
		case *ssa.Convert:
			v = x.X
		case *ssa.ChangeType:
			v = x.X
		default:
			return v
		}
	}
}

// ruleM6: one logical connection per id.
func ruleM6(c *Ctx) {
	m := c.M
	c.rule("M6", "one connection per id: mux.Open returns the connection already registered under the id; a new connection is created and registered only on the lookup-miss path, under the connection lock, with its own id and queue; conn.Close unregisters only itself", 3)
	la := allLocks(c)
	op := m.method(pkgMux, "mux", "Open")
	var lk *ssa.Lookup
	for _, b := range op.Blocks {
		for _, in := range b.Instrs {
			if l, ok := in.(*ssa.Lookup); ok && l.CommaOk && m.ap(l.X).PathString() == "conns" {
				lk = l
			}
		}
	}
	if lk == nil {
		c.violate("M6", "Open/lookup", op.Pos(), "Open looks the id up in the connection table", "no comma-ok lookup in m.conns")
		return
	}
	okKey := lk.Index == ssa.Value(op.Params[1])
	c.ok("M6", "Open/lookup", lk.Pos(), okKey && la.holds(lk, "mux.connLock", 'W'), "Open looks its id up under the exclusive connection lock it registers under",
		"the lookup is not keyed by the id parameter, or is not made under the exclusive connection lock: between a miss seen under a read lock (or no lock) and the registration another Open of the same id can register, and one of the two connections is orphaned")
	var upd *ssa.MapUpdate
	for _, b := range op.Blocks {
		for _, in := range b.Instrs {
			if mu, ok := in.(*ssa.MapUpdate); ok && m.ap(mu.Map).PathString() == "conns" {
				upd = mu
			}
		}
	}
	bad := ""
	if upd == nil {
		bad = "a new connection is never registered: frames for it are dropped"
	} else {
		miss := false
		for _, cd := range controls(upd.Block()) {
			cd = normCond(cd)
			if ex, ok := cd.V.(*ssa.Extract); ok && ex.Tuple == ssa.Value(lk) && ex.Index == 1 && !cd.Pol {
				miss = true
			}
		}
		_, fresh := upd.Value.(*ssa.Alloc)
		switch {
		case !miss:
			bad = "the registration is not confined to the lookup-miss path: a second Open of the same id replaces the connection, and data queued on the first one is lost"
		case !fresh || upd.Key != ssa.Value(op.Params[1]):
			bad = "what is registered is not a fresh connection under the requested id"
		case !la.holds(upd, "mux.connLock", 'W'):
			bad = "the registration is not under the connection lock"
		}
		// the id stored in the new connection is the requested one
		okID := false
		for _, fl := range m.fieldFlows(op) {
			if fl.Path == "id" && fl.Val == ssa.Value(op.Params[1]) {
				okID = true
			}
		}
		if bad == "" && !okID {
			bad = "the new connection does not carry the requested id"
		}
	}
	pos := op.Pos()
	if upd != nil {
		pos = upd.Pos()
	}
	c.ok("M6", "Open/register", pos, bad == "", "Open creates and registers a connection only when none exists for the id", bad)
	// returns: looked-up or the new one
	okRet := true
	for _, r := range returnsOf(op) {
		for _, v := range returnValues(r, 0) {
			if isNilConst(v) {
				continue
			}
			src := v
			if mi, ok := v.(*ssa.MakeInterface); ok {
				src = mi.X
			}
			for _, s2 := range valueSources(src, r, 0) {
				if upd != nil && s2 == upd.Value {
					continue
				}
				if ex, ok := s2.(*ssa.Extract); ok && ex.Tuple == ssa.Value(lk) && ex.Index == 0 {
					continue
				}
				okRet = false
			}
		}
	}
	// the queue has the configured length
	okQ := false
	for _, fl := range m.fieldFlows(op) {
		if fl.Path == "readC" {
			if mk, ok := fl.Val.(*ssa.MakeChan); ok && m.ap(mk.Size).PathString() == "qlen" {
				okQ = true
			}
		}
	}
	c.ok("M6", "Open/queue-length", op.Pos(), okQ, "a new connection's receive queue has the mux's configured queue length", "the receive queue is not created with the configured length (mux.qlen): a receiver that keeps up with the configured length still overflows the queue, which closes the whole mux")
	c.ok("M6", "Open/result", op.Pos(), okRet, "Open returns the registered connection", "Open returns something other than the looked-up or newly registered connection")
	// conn.Close deletes only itself
	cc := m.method(pkgMux, "conn", "Close")
	okDel := false
	for _, ci := range calls(cc) {
		call, ok := ci.(*ssa.Call)
		if !ok {
			continue
		}
		if bi, ok := call.Call.Value.(*ssa.Builtin); ok && bi.Name() == "delete" {
			for _, cd := range controls(call.Block()) {
				cd = normCond(cd)
				if bo, ok := cd.V.(*ssa.BinOp); ok && bo.Op == token.EQL && cd.Pol {
					if bo.Y == ssa.Value(cc.Params[0]) || bo.X == ssa.Value(cc.Params[0]) {
						okDel = true
					}
				}
			}
		}
	}
	// nothing else writes the table: entries are added by Open and removed by conn.Close only; the map itself is set once, on a new mux
	for _, f := range m.funcsInPkg(pkgMux) {
		for _, b := range f.Blocks {
			for _, in := range b.Instrs {
				kind := ""
				switch x := in.(type) {
				case *ssa.MapUpdate:
					if isConnsPath(m.ap(x.Map)) {
						kind = "update"
					}
				case *ssa.Call:
					if bi, ok := x.Call.Value.(*ssa.Builtin); ok && bi.Name() == "delete" && isConnsPath(m.ap(x.Call.Args[0])) {
						kind = "delete"
					}
				case *ssa.Store:
					if a := m.ap(x.Addr); isConnsPath(a) {
						kind = "replace"
						if _, fresh := a.Root.(*ssa.Alloc); fresh {
							kind = "init"
						}
					}
				}
				if kind == "" || kind == "init" {
					continue
				}
				root := f
				for root.Parent() != nil {
					root = root.Parent()
				}
				okW := (kind == "update" && root == op) || (kind == "delete" && root == cc)
				c.ok("M6", "table-writer/"+funcKey(f)+"/"+kind, in.Pos(), okW, "the connection table is only changed by Open (register) and conn.Close (unregister)",
					fmt.Sprintf("%s changes the connection table (%s): a registered connection can be replaced or dropped behind the back of its reader, losing or misrouting its frames", funcKey(f), kind))
			}
		}
	}
	c.ok("M6", "Close/self-only", cc.Pos(), okDel, "conn.Close unregisters the id only if it is still registered to this very connection", "conn.Close deletes the table entry unconditionally: closing a stale handle unregisters a newer connection with the same id")
}

func isConnsPath(a AP) bool { return len(a.Path) > 0 && a.Path[len(a.Path)-1] == "conns" }

func isTrunkPath(a AP) bool { return len(a.Path) > 0 && a.Path[len(a.Path)-1] == "trunk" }
