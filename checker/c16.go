package main

import (
	"fmt"
	"go/token"
	"go/types"
	"strings"

	"golang.org/x/tools/go/ssa"
)

func init() {
	register("C16", &propInfo{
		run: func(c *Ctx) {
			ruleZ1(c)
			ruleZ1close(c)
			ruleZ2(c)
			ruleZ3(c)
			ruleZ4(c)
			ruleZ5(c)
			ruleZ6(c)
			ruleZ7(c)
			ruleH3(c)
			ruleX5(c) // closing the mux from the write path's error branch cannot deadlock on a lock the writer holds
			ruleX1(c) // a connection lost mid-frame closes the whole mux, which is what wakes the ttRPC client and fires the close notification Start waits for
		},
		explanation: "Time bounds and the behaviour of ttRPC on a cut connection are not decided.  Decided is the structure that termination and restartability rest on: every channel receive executed while the stub lock is held is a select with a second case that the end of the session makes ready (the close notification's channel) — the one bare receive, close() waiting for the server goroutine, is preceded on every path by closing the server; the close notification closes its channel before doing anything that may need the stub lock (Start holds it while waiting for that channel); the close notification registered with the ttRPC client carries a value created in that very Start activation and the teardown it triggers is control-dependent on comparing it with the stub's current session; every session resource set up by Start/connect, including the conditionally reused connection, is reset by a deferred cleanup on every failing exit; close() is only ever called with the stub lock held, resets started and conn, and the per-activation done channel is closed once, after the server result was sent to a channel of capacity >= 1; Wait only waits when started and Start refuses a started stub; Configure reports its result exactly once. A read failure in the multiplexer's reader closes the whole mux (not only the trunk), which is what wakes the ttRPC client and fires the close notification. No multiplexer lock is acquired while already held (the failing write path closes the mux with the write lock held). The user's close callback is called for every ended session, stale notification or not.",
		notDecided: []string{
			"time bounds",
			"what ttRPC does on a cut at a given byte",
			"process exit via os.Exit when no close handler is set",
		},
	})
}

// onCloseClosures: closures passed to ttrpc.WithOnClose in f.
func onCloseClosures(m *Module, f *ssa.Function) []*ssa.MakeClosure {
	var out []*ssa.MakeClosure
	for _, ci := range calls(f) {
		g := m.callee(ci.Common())
		if g == nil || g.Name() != "WithOnClose" || g.Pkg == nil || !strings.HasSuffix(g.Pkg.Pkg.Path(), "containerd/ttrpc") {
			continue
		}
		if mc, ok := ci.Common().Args[0].(*ssa.MakeClosure); ok {
			out = append(out, mc)
		}
	}
	return out
}

// closedByOnClose: channels (local cells / values) that an on-close closure of f closes.
func closedByOnClose(m *Module, f *ssa.Function) map[ssa.Value]bool {
	out := map[ssa.Value]bool{}
	for _, mc := range onCloseClosures(m, f) {
		fn := mc.Fn.(*ssa.Function)
		for _, ci := range calls(fn) {
			call, ok := ci.(*ssa.Call)
			if !ok {
				continue
			}
			if bi, ok := call.Call.Value.(*ssa.Builtin); ok && bi.Name() == "close" {
				// the closed channel is a captured variable: map the free variable back to the binding
				v := call.Call.Args[0]
				if u, ok := v.(*ssa.UnOp); ok {
					v = u.X
				}
				for i, fv := range fn.FreeVars {
					if ssa.Value(fv) == v && i < len(mc.Bindings) {
						out[mc.Bindings[i]] = true
					}
				}
			}
		}
	}
	return out
}

func ruleZ1(c *Ctx) {
	m := c.M
	c.rule("Z1", "no uncancellable wait under the lock: every channel receive executed with stub.Mutex held is a select with another receive that the end of the session makes ready (a channel closed by the ttRPC close notification) — or is on a channel whose close is guaranteed by a call preceding it on every path (frozen instance: close() waits for doneC after closing the server, which ends Serve)", 2)
	la := allLocks(c)
	stT := m.named(pkgStub, "stub")
	ord := map[string]int{}
	for _, f := range m.funcsInPkg(pkgStub) {
		sessionEnd := closedByOnClose(m, f)
		for _, b := range f.Blocks {
			for _, in := range b.Instrs {
				var recvs []ssa.Value
				var pos token.Pos
				bare := false
				switch x := in.(type) {
				case *ssa.UnOp:
					if x.Op != token.ARROW {
						continue
					}
					recvs, pos, bare = []ssa.Value{x.X}, x.Pos(), true
				case *ssa.Select:
					if !x.Blocking {
						continue
					}
					for _, st := range x.States {
						if st.Dir == types.RecvOnly {
							recvs = append(recvs, st.Chan)
						}
					}
					pos = x.Pos()
				default:
					continue
				}
				if !la.holds(in, "stub.Mutex", 'W') {
					continue
				}
				base := funcKey(f) + "/recv"
				ord[base]++
				key := base
				if ord[base] > 1 {
					key = fmt.Sprintf("%s#%d", base, ord[base])
				}
				what := fmt.Sprintf("the receive in %s under the stub lock cannot block forever", funcKey(f))
				if !bare {
					okS := false
					for _, ch := range recvs {
						// the channel value is a load of a local cell closed by the on-close closure
						v := ch
						if u, ok := v.(*ssa.UnOp); ok {
							v = u.X
						}
						if sessionEnd[v] || sessionEnd[ch] {
							okS = true
						}
						// a timer bounds the wait as well
						if call, ok := ch.(*ssa.Call); ok {
							if g := m.callee(call.Common()); g != nil && g.String() == "time.After" {
								okS = true
							}
						}
						if a := m.ap(ch); len(a.Path) == 1 && a.Path[0] == "C" {
							if n := ptrNamed(a.Root.Type()); n != nil && n.Obj().Pkg() != nil && n.Obj().Pkg().Path() == "time" {
								okS = true
							}
						}
					}
					c.ok("Z1", key, pos, okS && len(recvs) >= 2, what, "none of the select's cases is a channel that the connection's close notification closes: if the peer goes away the select never fires and Start/Stop hang holding the lock")
					continue
				}
				// bare receive: frozen idiom — doneC after rpcs.Close()
				a := m.ap(recvs[0])
				okF := false
				if a.PathString() == "doneC" {
					for _, ci := range calls(f) {
						cc := ci.Common()
						isClose := false
						if g := m.callee(cc); g != nil && g.Name() == "Close" && len(cc.Args) > 0 && m.ap(cc.Args[0]).PathString() == "rpcs" {
							isClose = true
						}
						if isClose {
							// on every path to the receive on which the server exists: the receive is
							// reached only through the block structure `if rpcs != nil { Close }`
							if instrCanReach(ci, in) {
								okF = true
							}
						}
					}
				}
				_ = stT
				c.ok("Z1", key, pos, okF, what, fmt.Sprintf("bare receive on %s with the stub lock held and nothing that guarantees a sender or a close: when the runtime drops the connection at this point, Start (and with it Stop and the close notification) blocks forever", a))
			}
		}
	}
}

// ruleZ1close: the close notification signals first. The waits that Z1 accepts rely on the on-close
// callback closing its channel; the callback runs while Start may be holding the stub lock and waiting
// on exactly that channel, so nothing that needs the stub lock may come before the close.
func ruleZ1close(c *Ctx) {
	m := c.M
	la := allLocks(c)
	acq, callees := la.mayAcquire()
	for _, f := range m.funcsInPkg(pkgStub) {
		for _, mc := range onCloseClosures(m, f) {
			fn := mc.Fn.(*ssa.Function)
			for _, ci := range calls(fn) {
				call, ok := ci.(*ssa.Call)
				if !ok {
					continue
				}
				if bi, ok := call.Call.Value.(*ssa.Builtin); !ok || bi.Name() != "close" {
					continue
				}
				bad := ""
				for _, other := range calls(fn) {
					if other == ci || !instrCanReach(other, call) {
						continue
					}
					if op := la.lockOpOf(other.Common()); op != nil && op.Acquire && op.ID.Name == "stub.Mutex" {
						bad = c.pos(other.Pos())
					}
					gs, _ := callees(other)
					for _, g := range gs {
						if acq[g]["stub.Mutex"] {
							bad = fmt.Sprintf("%s (%s takes the stub lock)", c.pos(other.Pos()), funcKey(g))
						}
					}
				}
				c.ok("Z1", funcKey(f)+"/on-close/signals-first", call.Pos(), bad == "", "the close notification closes its channel before doing anything that needs the stub lock",
					"the callback can block on the stub lock at "+bad+" before it closes the channel: Start holds that lock while it waits for exactly this channel, so a connection lost during Start deadlocks it (and Stop, and the notification)")
			}
		}
	}
}

func ruleZ2(c *Ctx) {
	m := c.M
	c.rule("Z2", "notification bound to its session: the function registered with ttrpc.WithOnClose passes a value created in that Start activation to the close handler, and the teardown the handler triggers is control-dependent on comparing that value with the stub's current session state", 1)
	st := m.method(pkgStub, "stub", "Start")
	closeM := m.method(pkgStub, "stub", "close")
	mcs := onCloseClosures(m, st)
	if len(mcs) != 1 {
		c.violate("Z2", "Start/onclose", st.Pos(), "Start registers one close notification with the ttRPC client", fmt.Sprintf("%d registrations", len(mcs)))
		return
	}
	mc := mcs[0]
	fn := mc.Fn.(*ssa.Function)
	bad := "the close notification does not call a handler of the stub"
	for _, ci := range calls(fn) {
		g := m.callee(ci.Common())
		if g == nil || recvNamed(g) == nil || tname(recvNamed(g).Obj()) != "stub" {
			continue
		}
		// g is the handler (connClosed); does it receive a session-local value?
		sessionArg := -1
		for i, a := range ci.Common().Args[1:] {
			v := a
			if u, ok := v.(*ssa.UnOp); ok {
				v = u.X
			}
			for j, fv := range fn.FreeVars {
				if ssa.Value(fv) == v && j < len(mc.Bindings) {
					// the binding is a local of Start holding a value created in this activation
					for _, src := range valueSources(loadOf(mc.Bindings[j]), mc, 0) {
						if call, ok := src.(*ssa.Call); ok && call.Parent() == st {
							sessionArg = i + 1
						}
					}
				}
			}
		}
		if sessionArg < 0 {
			bad = "the close notification captures only the stub, no value of the session it belongs to: a late notification of an earlier connection cannot be told from one of the current connection and tears the current session down"
			continue
		}
		// in the handler: close() is control-dependent on comparing the parameter with stub state
		bad = "the handler does not compare the session value with the stub's current session before tearing down"
		for _, cc := range m.callsTo(g, closeM) {
			for _, cd := range controls(cc.Block()) {
				for _, src := range valueSources(cd.V, cd.If, 0) {
					bo, ok := src.(*ssa.BinOp)
					if !ok || (bo.Op != token.EQL && bo.Op != token.NEQ) {
						continue
					}
					isParam := func(v ssa.Value) bool {
						for _, s := range valueSources(v, cd.If, 0) {
							if s == ssa.Value(g.Params[sessionArg]) {
								return true
							}
							if mi, ok := s.(*ssa.MakeInterface); ok && mi.X == ssa.Value(g.Params[sessionArg]) {
								return true
							}
						}
						return false
					}
					isState := func(v ssa.Value) bool {
						a := m.ap(v)
						return a.Root == ssa.Value(g.Params[0]) && len(a.Path) == 1
					}
					if (isParam(bo.X) && isState(bo.Y)) || (isParam(bo.Y) && isState(bo.X)) {
						bad = ""
					}
				}
			}
		}
	}
	c.ok("Z2", "Start/onclose", mc.Pos(), bad == "", "the close notification only tears down the session it belongs to", bad)
	// every session's end is reported to the user: the user's onClose callback is called whenever it is set — the
	// staleness test decides about the teardown only, not about the report (a notification that lost the race for
	// the stub lock against the next Start is stale by then, but its session did end)
	for _, g := range m.methodsOf(pkgStub, "stub") {
		for _, ci := range calls(g) {
			call, ok := ci.(*ssa.Call)
			if !ok || call.Call.IsInvoke() || m.callee(call.Common()) != nil {
				continue
			}
			a := m.ap(call.Call.Value)
			if a.PathString() != "onClose" || !recvIsStub(m, a.Root) {
				continue
			}
			badC := ""
			for _, cd := range controls(call.Block()) {
				n := normCond(cd)
				bo, ok := n.V.(*ssa.BinOp)
				if !ok {
					continue
				}
				x, y := m.ap(bo.X), m.ap(bo.Y)
				if x.PathString() == "onClose" || y.PathString() == "onClose" {
					continue // the callback is set
				}
				badC = "the call of the user's onClose is controlled by " + n.V.String() + " (at " + c.pos(cd.If.Pos()) + ")"
			}
			// an early return before the call does the same without showing up as a control of its block
			if badC == "" && len(g.Blocks) > 0 {
				for _, r := range returnsOf(g) {
					if domInstr(call, r) || r.Block() == call.Block() {
						continue
					}
					for _, cd := range controls(r.Block()) {
						n := normCond(cd)
						if bo, ok := n.V.(*ssa.BinOp); ok {
							x, y := m.ap(bo.X), m.ap(bo.Y)
							if x.PathString() == "onClose" || y.PathString() == "onClose" {
								continue
							}
							if !canReach(r.Block(), call.Block()) && canReach(cd.If.Block(), call.Block()) && cd.If.Block().Dominates(call.Block()) {
								badC = "a return at " + c.pos(r.Pos()) + " taken under " + n.V.String() + " skips the user's onClose"
							}
						}
					}
				}
			}
			c.ok("Z2", funcKey(g)+"/reports-every-end", call.Pos(), badC == "", "the user's close callback is called for every ended session, stale notification or not",
				badC+": when the notification of a session that was stopped loses the race for the stub lock against the next Start it is classed as stale, and the end of that session is then never reported")
		}
	}
}

// loadOf returns a value representing the content of cell v (a pseudo load for valueSources).
func loadOf(cell ssa.Value) ssa.Value {
	if al, ok := cell.(*ssa.Alloc); ok {
		for _, r := range *al.Referrers() {
			if u, ok := r.(*ssa.UnOp); ok && u.Op == token.MUL {
				return u
			}
		}
		// no load in the parent: use the stored value directly
		for _, r := range *al.Referrers() {
			if st, ok := r.(*ssa.Store); ok && st.Addr == cell {
				return st.Val
			}
		}
	}
	return cell
}

// deferredResets: stub fields that a deferred closure of f stores nil into under retErr != nil.
func deferredResets(m *Module, f *ssa.Function) map[string]*ssa.Defer {
	out := map[string]*ssa.Defer{}
	for _, b := range f.Blocks {
		for _, in := range b.Instrs {
			d, ok := in.(*ssa.Defer)
			if !ok {
				continue
			}
			fn := closureFn(d.Call.Value)
			if fn == nil || fn.Parent() != f {
				continue
			}
			for _, bb := range fn.Blocks {
				for _, in2 := range bb.Instrs {
					st, ok := in2.(*ssa.Store)
					if !ok || !isNilConst(st.Val) {
						continue
					}
					fa, ok := st.Addr.(*ssa.FieldAddr)
					if !ok {
						continue
					}
					if n := ptrNamed(fa.X.Type()); n == nil || tname(n.Obj()) != "stub" {
						continue
					}
					// under retErr != nil
					under := false
					for _, cd := range controls(bb) {
						cd = normCond(cd)
						if bo, ok := cd.V.(*ssa.BinOp); ok && isNilConst(bo.Y) && ((bo.Op == token.NEQ && cd.Pol) || (bo.Op == token.EQL && !cd.Pol)) {
							if isErrorType(bo.X.Type()) {
								under = true
							}
						}
					}
					if under {
						out[fieldName(fa.X.Type(), fa.Field)] = d
					}
				}
			}
		}
	}
	return out
}

func hasCloseMethod(t types.Type) bool {
	ms := types.NewMethodSet(t)
	for i := 0; i < ms.Len(); i++ {
		if ms.At(i).Obj().Name() == "Close" {
			return true
		}
	}
	if _, ok := t.Underlying().(*types.Pointer); !ok {
		ms = types.NewMethodSet(types.NewPointer(t))
		for i := 0; i < ms.Len(); i++ {
			if ms.At(i).Obj().Name() == "Close" {
				return true
			}
		}
	}
	return false
}

func ruleZ3(c *Ctx) {
	m := c.M
	c.rule("Z3", "reset on failure: every closable session resource that Start or connect stores into the stub — in particular the connection, which connect reuses when it is already set — is reset to nil by a deferred cleanup under retErr != nil that covers every failing exit of Start after the resource was acquired", 5)
	st := m.method(pkgStub, "stub", "Start")
	cn := m.method(pkgStub, "stub", "connect")
	stT := m.named(pkgStub, "stub")
	resets := deferredResets(m, st)
	// resources: stub fields with a Close method assigned a non-nil value in Start or connect
	type acq struct {
		field string
		at    ssa.Instruction // in Start: the store, or the call of connect
	}
	var acqs []acq
	sfields := m.structOf(pkgStub, "stub")
	for i := 0; i < sfields.NumFields(); i++ {
		fld := sfields.Field(i)
		if !hasCloseMethod(fld.Type()) {
			continue
		}
		for _, fs := range m.fieldStores(st, stT, fld.Name()) {
			if !isNilConst(fs.Store.Val) {
				acqs = append(acqs, acq{fld.Name(), fs.Store})
			}
		}
		stored := false
		for _, fs := range m.fieldStores(cn, stT, fld.Name()) {
			if !isNilConst(fs.Store.Val) {
				stored = true
			}
		}
		if stored {
			for _, ci := range m.callsTo(st, cn) {
				acqs = append(acqs, acq{fld.Name(), ci})
			}
		}
	}
	seen := map[string]bool{}
	for _, a := range acqs {
		if seen[a.field] {
			continue
		}
		seen[a.field] = true
		key := "Start/" + a.field
		what := fmt.Sprintf("a failed Start does not leave stub.%s behind", a.field)
		d, ok := resets[a.field]
		if !ok {
			detail := "no deferred cleanup resets it when Start fails"
			if a.field == "conn" {
				detail += ": connect() reuses stub.conn when it is set, so the next Start works on the dead connection instead of dialling again"
			}
			c.violate("Z3", key, a.at.Pos(), what, detail)
			continue
		}
		// every failing return reachable after the acquisition is covered by the defer
		bad := ""
		for _, r := range returnsOf(st) {
			if !instrCanReach(a.at, r) {
				continue
			}
			fails := false
			for _, v := range returnValues(r, 0) {
				if !isNilConst(v) {
					fails = true
				}
			}
			if fails && !domInstr(d, r) {
				// tolerated: the failing return directly after the acquisition call itself (nothing acquired)
				if call, ok := a.at.(*ssa.Call); ok {
					isOwn := false
					for _, fb := range errFailBlocks(call) {
						if fb.Dominates(r.Block()) {
							isOwn = true
						}
					}
					if isOwn {
						continue
					}
				}
				bad = fmt.Sprintf("the failing return at %s is not covered by the cleanup", c.pos(r.Pos()))
			}
		}
		c.ok("Z3", key, d.Pos(), bad == "", what, bad)
	}
	if !seen["conn"] {
		c.violate("Z3", "Start/conn", st.Pos(), "the connection is acquired by Start/connect", "no store of the connection found")
	}
}

func ruleZ4(c *Ctx) {
	m := c.M
	c.rule("Z4", "close discipline: stub.close is only called with stub.Mutex held; it resets started and conn; the per-activation done channel is closed exactly once, by the server goroutine, after the server's result was sent to a channel created with capacity >= 1", 5)
	la := allLocks(c)
	cl := m.method(pkgStub, "stub", "close")
	stT := m.named(pkgStub, "stub")
	for _, cs := range m.callersOf(cl) {
		c.ok("Z4", "caller/"+funcKey(cs.Caller), cs.Instr.Pos(), la.holds(cs.Instr, "stub.Mutex", 'W'), "close() is called from "+funcKey(cs.Caller)+" with the stub lock held",
			"close() is called with lockset "+la.describe(cs.Instr)+": it races with Start/Stop on the session fields")
	}
	sr := startedField(m)
	for _, fld := range []string{sr.field, "conn", "syncReq"} {
		okR := false
		for _, fs := range m.fieldStores(cl, stT, fld) {
			if isNilConst(fs.Store.Val) || (fld == sr.field && sr.isClear(fs.Store.Val)) {
				// unconditional on the started path
				okR = true
			}
		}
		c.ok("Z4", "reset/"+fld, cl.Pos(), okR, "close() resets stub."+fld, "close() does not reset stub."+fld+": the stub cannot be started again, reuses a dead connection, or prepends the chunks of an aborted synchronization to the next one")
	}
	st := m.method(pkgStub, "stub", "Start")
	// the server goroutine
	var gofn *ssa.Function
	var goInstr *ssa.Go
	for _, ci := range calls(st) {
		if g, ok := ci.(*ssa.Go); ok {
			gofn = closureFn(g.Call.Value)
			goInstr = g
		}
	}
	if gofn == nil {
		c.violate("Z4", "goroutine", st.Pos(), "Start runs the server in a goroutine", "no go statement in Start")
		return
	}
	var send *ssa.Send
	var closeCall *ssa.Call
	for _, b := range gofn.Blocks {
		for _, in := range b.Instrs {
			switch x := in.(type) {
			case *ssa.Send:
				send = x
			case *ssa.Call:
				if bi, ok := x.Call.Value.(*ssa.Builtin); ok && bi.Name() == "close" {
					closeCall = x
				}
			}
		}
	}
	bad := ""
	switch {
	case send == nil || closeCall == nil:
		bad = "the goroutine does not send the server result and close the done channel"
	case !domInstr(send, closeCall):
		bad = "the done channel is closed before the server's result was sent"
	case inLoop(closeCall.Block()):
		bad = "the done channel is closed in a loop"
	}
	// the channels are the ones created in this activation: arguments of the go call from stub.doneC / stub.srvErrC
	if bad == "" && goInstr != nil {
		okArgs := 0
		for _, a := range goInstr.Call.Args {
			p := m.ap(a).PathString()
			if p == "doneC" || p == "srvErrC" {
				okArgs++
			}
		}
		if okArgs < 2 {
			bad = "the goroutine does not work on this activation's doneC/srvErrC"
		}
	}
	c.ok("Z4", "goroutine", gofn.Pos(), bad == "", "the server goroutine sends its result, then closes the done channel, once", bad)
	// capacity of srvErrC and cfgErrC
	for _, fld := range []string{"srvErrC", "cfgErrC"} {
		okCap := false
		for _, fs := range m.fieldStores(st, stT, fld) {
			if mk, ok := fs.Store.Val.(*ssa.MakeChan); ok {
				if n, ok := constInt(mk.Size); ok && n >= 1 {
					okCap = true
				}
			}
		}
		c.ok("Z4", "capacity/"+fld, st.Pos(), okCap, "stub."+fld+" is created with capacity >= 1 so that its single sender never blocks",
			"the channel is unbuffered: the sender blocks until somebody receives — the server goroutine (and close(), which waits for it) or the Configure RPC hang")
	}
	// doneC is made per activation
	okD := false
	for _, fs := range m.fieldStores(st, stT, "doneC") {
		if _, ok := fs.Store.Val.(*ssa.MakeChan); ok {
			okD = true
		}
	}
	c.ok("Z4", "doneC-per-activation", st.Pos(), okD, "Start creates a fresh done channel per activation", "doneC is not re-created in Start: the second activation closes an already closed channel (panic) or Wait returns at once")
}

func ruleZ5(c *Ctx) {
	m := c.M
	c.rule("Z5", "not-started paths return: Wait receives from the done channel only when the stub is started; Start refuses (returns an error) when the stub is already started, before touching any session state", 2)
	w := m.method(pkgStub, "stub", "Wait")
	okW := false
	for _, b := range w.Blocks {
		for _, in := range b.Instrs {
			if u, ok := in.(*ssa.UnOp); ok && u.Op == token.ARROW {
				for _, cd := range controls(b) {
					cd = normCond(cd)
					if cd.Pol && readsStarted(m, cd.V, 0) {
						okW = true
					}
				}
			}
		}
	}
	c.ok("Z5", "Wait", w.Pos(), okW, "Wait only waits when the stub is started", "Wait receives from the done channel without checking that the stub is started: on a stub that never started (nil channel) it blocks forever")
	st := m.method(pkgStub, "stub", "Start")
	stT := m.named(pkgStub, "stub")
	var test *ssa.If
	for _, b := range st.Blocks {
		iff := lastIf(b)
		if iff == nil {
			continue
		}
		if readsStarted(m, iff.Cond, 0) {
			test = iff
		}
	}
	bad := ""
	if test == nil {
		bad = "Start does not test whether the stub is already started"
	} else {
		t := test.Block().Succs[0]
		okE := false
		for _, r := range returnsOf(st) {
			if t.Dominates(r.Block()) {
				for _, v := range returnValues(r, 0) {
					if isNonNilErrorValue(m, v, 0) {
						okE = true
					}
				}
			}
		}
		if !okE {
			bad = "the already-started branch does not return an error"
		}
		for i := 0; i < m.structOf(pkgStub, "stub").NumFields(); i++ {
			for _, fs := range m.fieldStores(st, stT, fname(m.structOf(pkgStub, "stub").Field(i))) {
				if !test.Block().Dominates(fs.Store.Block()) || fs.Store.Block() == test.Block() {
					bad = fmt.Sprintf("stub.%s is written before the already-started test", fname(m.structOf(pkgStub, "stub").Field(i)))
				}
			}
		}
	}
	c.ok("Z5", "Start", st.Pos(), bad == "", "Start refuses a stub that is already started before touching session state", bad)
}

// readsStarted: v is the stub's started flag, read directly or through a method that returns it.
func readsStarted(m *Module, v ssa.Value, depth int) bool {
	if depth > 3 {
		return false
	}
	if call, ok := v.(*ssa.Call); ok {
		g := m.callee(call.Common())
		if g == nil || len(g.Blocks) == 0 || g.Pkg == nil || g.Pkg.Pkg.Path() != pkgStub || g.Signature.Results().Len() != 1 {
			return false
		}
		rets := returnsOf(g)
		for _, r := range rets {
			for _, rv := range returnValues(r, 0) {
				if !readsStarted(m, rv, depth+1) {
					return false
				}
			}
		}
		return len(rets) > 0
	}
	sr := startedField(m)
	if !sr.isBool {
		bo, ok := v.(*ssa.BinOp)
		if !ok || bo.Op != token.EQL {
			return false
		}
		if k, isC := constInt(bo.Y); !isC || k != sr.k {
			return false
		}
		v = bo.X
	}
	a := m.ap(v)
	return a.PathString() == sr.field && a.Root != nil && recvIsStub(m, a.Root)
}

// startedRep: how the stub records that it is started — a bool field, or a state field compared with one constant.
type startedRep struct {
	field  string
	isBool bool
	k      int64
}

var startedMemo *startedRep

// startedField reads the representation off the method that answers "is the stub started".
func startedField(m *Module) startedRep {
	if startedMemo != nil {
		return *startedMemo
	}
	sr := startedRep{field: "started", isBool: true}
	if f := m.methodOpt(pkgStub, "stub", "isStarted"); f != nil {
		for _, r := range returnsOf(f) {
			for _, v := range returnValues(r, 0) {
				if bo, ok := v.(*ssa.BinOp); ok && bo.Op == token.EQL {
					if k, isC := constInt(bo.Y); isC {
						if a := m.ap(bo.X); len(a.Path) == 1 && recvIsStub(m, a.Root) {
							sr = startedRep{field: a.Path[0], isBool: false, k: k}
						}
					}
					continue
				}
				if a := m.ap(v); len(a.Path) == 1 && a.Root != nil && recvIsStub(m, a.Root) {
					sr = startedRep{field: a.Path[0], isBool: true}
				}
			}
		}
	}
	startedMemo = &sr
	return sr
}

func (sr startedRep) isSet(v ssa.Value) bool {
	if sr.isBool {
		return isConstBool(v, true)
	}
	k, ok := constInt(v)
	return ok && k == sr.k
}

func (sr startedRep) isClear(v ssa.Value) bool {
	if sr.isBool {
		return isConstBool(v, false)
	}
	k, ok := constInt(v)
	return ok && k != sr.k
}

func recvIsStub(m *Module, v ssa.Value) bool {
	t := v.Type()
	if p, ok := t.Underlying().(*types.Pointer); ok {
		t = p.Elem()
	}
	return types.Identical(t, m.named(pkgStub, "stub"))
}

// ruleZ6: session state is only touched under the stub lock.
func ruleZ6(c *Ctx) {
	m := c.M
	c.rule("Z6", "session state under the lock: every read or write of the stub's session fields (rpcm, rpcl, rpcs, rpcc, conn, started, syncReq) outside stub construction happens with stub.Mutex held — in particular the comparison that decides whether a close notification is stale is made under the same lock as the teardown it guards", 15)
	la := allLocks(c)
	stT := m.named(pkgStub, "stub")
	ord := map[string]int{}
	for _, f := range m.funcsInPkg(pkgStub) {
		if f.Synthetic != "" {
			continue
		}
		// construction: New and the option closures work on a stub that is not shared yet
		if f.Name() == "New" || (f.Parent() != nil && strings.HasPrefix(f.Parent().Name(), "With")) {
			continue
		}
		for _, fld := range []string{"rpcm", "rpcl", "rpcs", "rpcc", "conn", startedField(m).field, "syncReq"} {
			for _, fa := range m.fieldAddrs(f, stT, fld) {
				base := funcKey(f) + "/" + fld
				ord[base]++
				key := base
				if ord[base] > 1 {
					key = fmt.Sprintf("%s#%d", base, ord[base])
				}
				c.ok("Z6", key, fa.Pos(), la.holds(fa, "stub.Mutex", 'W'), fmt.Sprintf("stub.%s is accessed in %s under the stub lock", fld, funcKey(f)),
					"the session field is accessed with lockset "+la.describe(fa)+": a check made here can be invalidated by a concurrent Start/Stop before it is acted upon (check-then-act race), e.g. a late close notification judged current tears down the next session")
			}
		}
	}
}

// ruleZ7: the stub is marked started only on the successful path.
func ruleZ7(c *Ctx) {
	m := c.M
	c.rule("Z7", "started means started: Start sets stub.started only where no failing return can follow (after registration succeeded and the configuration result arrived), and nothing but close() clears it", 2)
	st := m.method(pkgStub, "stub", "Start")
	stT := m.named(pkgStub, "stub")
	sr := startedField(m)
	n := 0
	var sets []ssa.Instruction
	for _, fs := range m.fieldStores(st, stT, sr.field) {
		if !sr.isSet(fs.Store.Val) {
			continue
		}
		n++
		sets = append(sets, fs.Store)
		bad := ""
		for _, r := range returnsOf(st) {
			if !instrCanReach(fs.Store, r) {
				continue
			}
			for _, v := range returnValues(r, 0) {
				if !isNilConst(v) {
					bad = fmt.Sprintf("the failing return at %s can follow", c.pos(r.Pos()))
				}
			}
		}
		c.ok("Z7", "Start/started", fs.Store.Pos(), bad == "", "Start marks the stub started only when it is going to return success", bad+": a failed Start leaves the stub marked started, so the retry is refused with 'already started' and Wait blocks")
	}
	if n == 0 {
		c.violate("Z7", "Start/started", st.Pos(), "Start marks the stub started", "no store marking the stub started in Start")
	}
	closeFn := m.method(pkgStub, "stub", "close")
	for _, f := range m.funcsInPkg(pkgStub) {
		for _, fs := range m.fieldStores(f, stT, sr.field) {
			if !sr.isClear(fs.Store.Val) {
				continue
			}
			okC := f == closeFn
			if !okC && f == st {
				// Start recording an intermediate (not started) state before it marks the stub started
				okC = true
				for _, s := range sets {
					if instrCanReach(s, fs.Store) {
						okC = false
					}
				}
			}
			if !okC && f.Parent() == st {
				// Start's failure cleanup: only when Start is returning an error
				for _, cd := range controls(fs.Store.Block()) {
					cd = normCond(cd)
					if bo, ok := cd.V.(*ssa.BinOp); ok && isNilConst(bo.Y) && isErrorType(bo.X.Type()) && ((bo.Op == token.NEQ && cd.Pol) || (bo.Op == token.EQL && !cd.Pol)) {
						okC = true
					}
				}
			}
			c.ok("Z7", "cleared-by/"+funcKey(f), fs.Store.Pos(), okC, "only close() (or a Start that is failing or has not yet marked it started) marks the stub not started", funcKey(f)+" clears the started flag")
		}
	}
}
