package main

import (
	"fmt"
	"go/token"
	"go/types"
	"strings"

	"golang.org/x/tools/go/ssa"
)

func init() {
	register("C04", &propInfo{
		run: func(c *Ctx) {
			ma := newMergeAnalysis(c)
			ma.collectPairs()
			ma.ruleR10(c)
			ma.ruleR7f(c)
			ma.ruleR11(c, "bc")
			ma.ruleR12(c)
			ruleR14(c)
			ma.ruleR15(c)
			ruleO2(c)
			ruleV4(c)
			ma.ruleR14n(c)
			ma.ruleR14m(c)
			ma.ruleR8(c)
			ruleV7(c)
			ruleV6(c)     // the view's env entries are rendered exactly as the generator renders the combined adjustment
			ma.ruleR19(c) // what later plugins are shown of the container being updated changes only on commit, from a staged Copy()
		},
		explanation: "Decides that the request object shown to plugins is kept in step with the combined result: every accepted write into the reply has a twin write of the same item and value into the request view (and vice versa); removed and re-set keys are dropped from the view before new entries are appended; lists in the view only grow by append; the result constructors keep the caller's request pointer (identity, not a copy) and only replace nil members by empty ones; the request methods hand that same request object to every plugin in one sequential loop; for update requests the committed resources are written back to the request exactly when the update targets the container being updated. Also decided: accumulated and staged maps are created only when nil, filter lookups use the set's own kind of key, and claims depend on presence only. The staged working copy of an update is a Copy(), and the optional constructors Copy() relies on keep nil as nil. Env entries of the view are always rendered with the separator, as the generator renders them.",
		notDecided: []string{
			"deep equality of the view with 'original + generator(adjustment)' (e.g. duplicates in appended lists)",
			"what the transport delivers to the plugin",
		},
	})
}

func ruleR14(c *Ctx) {
	m := c.M
	c.rule("R14", "same object re-sent: the result constructors store their request parameter itself (pointer identity) in the result; normalisation only replaces nil members by fresh empty ones (every store through the request is under an == nil test of the same member); the request methods pass the same request value to the constructor and to every relay call", 12)
	resT := m.named(pkgAdapt, "result")
	for _, name := range []string{"collectCreateContainerResult", "collectUpdateContainerResult"} {
		f := m.fn(pkgAdapt, name)
		param := f.Params[0]
		kept := false
		for _, b := range f.Blocks {
			for _, in := range b.Instrs {
				st, ok := in.(*ssa.Store)
				if !ok {
					continue
				}
				a := m.ap(st.Addr)
				if al, ok := a.Root.(*ssa.Alloc); ok {
					if n := ptrNamed(al.Type()); n != nil && n.Obj() == resT.Obj() && len(a.Path) == 2 && a.Path[0] == "request" {
						if st.Val == ssa.Value(param) {
							kept = true
						} else if !isNilConst(st.Val) {
							c.violate("R14", name+"/request", st.Pos(), name+" keeps the caller's request object", "result.request."+a.Path[1]+" is assigned something other than the parameter: plugins are shown a copy that the merge does not update (or the other way round)")
						}
					}
					continue
				}
				if a.Root == ssa.Value(param) {
					// normalisation store: under an == nil test of the same path, storing a fresh empty value
					key := name + "/norm/" + a.PathString()
					underNil := false
					for _, cd := range controls(b) {
						cd = normCond(cd)
						if bo, ok := cd.V.(*ssa.BinOp); ok && isNilConst(bo.Y) && ((bo.Op == token.EQL && cd.Pol) || (bo.Op == token.NEQ && !cd.Pol)) {
							ta := m.ap(bo.X)
							if ta.Root == ssa.Value(param) && ta.PathString() == a.PathString() {
								underNil = true
							}
						}
					}
					fresh := false
					switch v := st.Val.(type) {
					case *ssa.Alloc, *ssa.MakeMap, *ssa.MakeSlice:
						fresh = true
					case *ssa.Slice:
						_, fresh = v.X.(*ssa.Alloc)
					}
					c.ok("R14", key, st.Pos(), underNil && fresh, fmt.Sprintf("%s only replaces a nil %s by an empty one", name, a.PathString()),
						"the constructor overwrites a member of the runtime's request that is not nil (or with non-empty content): the first plugin no longer sees what the runtime submitted")
				}
			}
		}
		c.ok("R14", name+"/request", f.Pos(), kept, name+" keeps the caller's request object (pointer identity)",
			"the constructor does not store its parameter in result.request: the request re-sent to plugins is not the object the merge updates")
	}
	// request methods: same request to constructor and relay
	ad := m.methodsOf(pkgAdapt, "Adaptation")
	relays := map[*ssa.Function]bool{}
	for _, r := range requestRelays(m) {
		relays[r] = true
	}
	for _, f := range ad {
		var collect, relay ssa.CallInstruction
		for _, ci := range calls(f) {
			g := m.callee(ci.Common())
			if g == nil {
				continue
			}
			if strings.HasPrefix(g.Name(), "collect") && g.Pkg != nil && g.Pkg.Pkg.Path() == pkgAdapt && len(ci.Common().Args) == 1 {
				collect = ci
			}
			if relays[g] {
				relay = ci
			}
		}
		if collect == nil || relay == nil {
			continue
		}
		req := collect.Common().Args[0]
		_, isParam := req.(*ssa.Parameter)
		same := len(relay.Common().Args) >= 3 && relay.Common().Args[2] == req
		c.ok("R14", "resend/"+f.Name(), relay.Pos(), isParam && same, f.Name()+" sends every plugin the request object that the merge updates",
			"the relay is not called with the very request passed to the result constructor: later plugins do not see earlier plugins' changes")
	}
}

// ruleR15: update view write-back.
func (ma *mergeAnalysis) ruleR15(c *Ctx) {
	m := c.M
	c.rule("R15", "update view: updateResources writes the committed resources back to the update request's LinuxResources when, and only when, the update targets the container being updated", 1)
	mf := ma.get("updateResources")
	if mf == nil {
		panic(anchorErr{"result.updateResources not found"})
	}
	found := false
	for _, w := range mf.writes {
		if w.kind != "store" || w.target.Root != ssa.Value(mf.recv) || w.target.PathString() != "request.update.LinuxResources" {
			continue
		}
		found = true
		idOK := false
		for _, cd := range controls(w.block()) {
			cd = normCond(cd)
			bo, ok := cd.V.(*ssa.BinOp)
			if !ok || !((bo.Op == token.EQL && cd.Pol) || (bo.Op == token.NEQ && !cd.Pol)) {
				continue
			}
			ax, ay := m.ap(bo.X), m.ap(bo.Y)
			isReqID := func(a AP) bool {
				return a.Root == ssa.Value(mf.recv) && a.PathString() == "request.update.Container.Id"
			}
			isUpdID := func(a AP) bool {
				p, ok := a.Root.(*ssa.Parameter)
				return ok && mf.plugin[p] && a.PathString() == "ContainerId"
			}
			if (isReqID(ax) && isUpdID(ay)) || (isReqID(ay) && isUpdID(ax)) {
				idOK = true
			}
		}
		staged := mf.prov(w.val)&tStaged != 0
		c.ok("R15", "updateResources/writeback", w.instr.Pos(), idOK && staged, "the request's resources are replaced by the committed copy only for the request's own container",
			"the write-back is not controlled by request.Container.Id == update.ContainerId, or does not store the staged copy: a third-party update leaks into (or the own update is missing from) what later plugins are shown")
	}
	if !found {
		c.violate("R15", "updateResources/writeback", mf.fn.Pos(), "the request's resources are updated for the request's own container", "no store to request.update.LinuxResources: later plugins do not see earlier plugins' updates of the container being updated")
	}
}

// ruleO2: one relay call per plugin per request, in one range loop over the plugin list.
func ruleO2(c *Ctx) {
	m := c.M
	c.rule("O2", "once per plugin: every request method calls its relay exactly once per iteration of a single range loop over the plugin list (no nested loop, no retry), tests the relay's error first and returns on the first non-nil error", 5)
	relays := map[*ssa.Function]bool{}
	for _, r := range requestRelays(m) {
		relays[r] = true
	}
	adT := m.named(pkgAdapt, "Adaptation")
	seen := map[*ssa.Function]bool{}
	for _, f := range m.methodsOf(pkgAdapt, "Adaptation") {
		var rc []*ssa.Call
		for _, ci := range calls(f) {
			if g := m.callee(ci.Common()); g != nil && relays[g] {
				if call, ok := ci.(*ssa.Call); ok {
					rc = append(rc, call)
					seen[g] = true
				} else {
					c.violate("O2", f.Name()+"/relay", ci.Pos(), "relay is called synchronously", "relay called with go/defer")
				}
			}
		}
		if len(rc) == 0 {
			continue
		}
		what := f.Name() + " invokes each plugin exactly once, in list order, and stops at the first error"
		if len(rc) != 1 {
			c.violate("O2", f.Name(), f.Pos(), what, fmt.Sprintf("%d relay call sites: a plugin can be invoked more than once per request", len(rc)))
			continue
		}
		call := rc[0]
		bad := ""
		// receiver of the relay is the element of a range over r.plugins
		coll, _ := rangeOf(call.Call.Args[0])
		if coll == nil {
			bad = "the relay's receiver is not the element of a range loop"
		} else {
			a := m.ap(coll)
			if n := ptrNamed(a.Root.Type()); n == nil || n.Obj() != adT.Obj() || a.PathString() != "plugins" {
				bad = "the loop does not range over the adaptation's plugin list"
			}
		}
		if bad == "" {
			hdr := loopHeader(call.Block())
			if hdr == nil {
				bad = "relay call is not in a loop"
			} else {
				// single loop: the header is not itself inside another loop
				body := loopBody(hdr)
				for b := range body {
					if h2 := loopHeader(b); h2 != nil && h2 != hdr && body[h2] {
						bad = "nested loop around/inside the relay call"
					}
				}
				for _, p := range hdr.Preds {
					if !body[p] && inLoop(p) {
						bad = "the plugin loop is nested in another loop (retry)"
					}
				}
				// executed on every iteration
				for _, p := range hdr.Preds {
					if body[p] && !call.Block().Dominates(p) {
						bad = "the relay is not called on every iteration"
					}
				}
			}
		}
		if bad == "" {
			st, d := errPropagated(m, f, call)
			if st != "ok" {
				bad = "relay error: " + d
			} else {
				// the error test comes before any other use of the reply
				ev := errResult(call)
				for _, t := range nilTestsOf(ev) {
					for _, r := range *call.Referrers() {
						if ex, ok := r.(*ssa.Extract); ok && ex != ev {
							for _, u := range *ex.Referrers() {
								if !t.NilSucc.Dominates(u.Block()) {
									if _, dbg := u.(*ssa.DebugRef); !dbg {
										bad = "the reply is used before the relay's error is tested"
									}
								}
							}
						}
					}
				}
			}
		}
		c.ok("O2", f.Name(), call.Pos(), bad == "", what, bad)
	}
	for r := range relays {
		c.ok("O2", "used/"+r.Name(), r.Pos(), seen[r], "relay "+r.Name()+" is driven by a request method", "relay is never called")
	}
}

// ruleR14n: everything the merge functions write through is initialised by the constructors.
func (ma *mergeAnalysis) ruleR14n(c *Ctx) {
	m := c.M
	c.rule("R14n", "initialised before written through: every pointer- or map-typed member of the request view and of the reply accumulator that a merge function writes through (request.Container.Linux.Resources.Memory.Limit needs Linux, Resources and Memory; Unified[k] needs the map) is set to a non-nil value by the result constructor (or by the accumulator literal of getContainerUpdate) — otherwise the first plugin touching it crashes the runtime with a nil dereference or a write to a nil map", 10)
	// initialised paths
	initView := map[string]bool{}  // relative to request.create / request.update
	initReply := map[string]bool{} // relative to reply
	initAcc := map[string]bool{}   // accumulator literal in getContainerUpdate, relative to the ContainerUpdate
	for _, name := range []string{"collectCreateContainerResult", "collectUpdateContainerResult"} {
		f := m.fn(pkgAdapt, name)
		for _, b := range f.Blocks {
			for _, in := range b.Instrs {
				if st, ok := in.(*ssa.Store); ok && !isNilConst(st.Val) {
					a := m.ap(st.Addr)
					if a.Root == ssa.Value(f.Params[0]) {
						initView[name[7:13]+":"+a.PathString()] = true
					}
				}
			}
		}
		for _, fl := range m.fieldFlows(f) {
			if strings.HasPrefix(fl.Path, "reply.") && !isNilConst(fl.Val) {
				initReply[strings.TrimPrefix(fl.Path, "reply.")] = true
			}
		}
		// nested literals: the flattened flows only list leaves; add every prefix of an initialised leaf
	}
	gcu := m.method(pkgAdapt, "result", "getContainerUpdate")
	for _, fl := range m.fieldFlows(gcu) {
		initAcc[fl.Path] = true
	}
	addPrefixes := func(set map[string]bool) {
		for k := range set {
			parts := strings.Split(k, ".")
			for i := 1; i < len(parts); i++ {
				set[strings.Join(parts[:i], ".")] = true
			}
		}
	}
	addPrefixes(initReply)
	addPrefixes(initAcc)
	// also composite literal members that are themselves fresh objects (stores of allocs are skipped by fieldFlows)
	for _, f := range []*ssa.Function{m.fn(pkgAdapt, "collectCreateContainerResult"), m.fn(pkgAdapt, "collectUpdateContainerResult"), gcu} {
		st := &ffState{m: m, memo: map[ssa.Value]*place{}, busy: map[ssa.Value]bool{}}
		for _, b := range f.Blocks {
			for _, in := range b.Instrs {
				s2, ok := in.(*ssa.Store)
				if !ok || !isNestedValue(s2.Val) {
					continue
				}
				if p := st.placeOf(s2.Addr); p != nil && len(p.path) > 0 {
					path := strings.Join(p.path, ".")
					if strings.HasPrefix(path, "reply.") {
						initReply[strings.TrimPrefix(path, "reply.")] = true
					} else if f == gcu {
						initAcc[path] = true
					}
				}
			}
		}
	}
	// members the constructor itself reads through without initialising are the runtime's precondition
	readThrough := map[string]bool{}
	for _, name := range []string{"collectCreateContainerResult", "collectUpdateContainerResult"} {
		f := m.fn(pkgAdapt, name)
		for _, b := range f.Blocks {
			for _, in := range b.Instrs {
				if fa, ok := in.(*ssa.FieldAddr); ok {
					a := m.ap(fa.X)
					if a.Root == ssa.Value(f.Params[0]) && len(a.Path) > 0 {
						readThrough[name[7:13]+":"+a.PathString()] = true
					}
				}
			}
		}
	}
	seen := map[string]bool{}
	for _, mf := range ma.fns {
		for _, w := range mf.writes {
			var rel []string
			var set map[string]bool
			var where, pfx string
			switch {
			case w.space == "view" && len(w.target.Path) > 2 && w.target.Path[1] == "create":
				rel, set, where, pfx = w.target.Path[2:], initView, "collectCreateContainerResult", "Create:"
			case w.space == "view" && len(w.target.Path) > 2 && w.target.Path[1] == "update":
				rel, set, where, pfx = w.target.Path[2:], initView, "collectUpdateContainerResult", "Update:"
			case w.space == "reply":
				rel, set, where = w.target.Path[1:], initReply, "collectCreateContainerResult (reply literal)"
			case w.space == "staged":
				// the staged copy comes from the request's resources or from an accumulator: both must have the member
				rel = nil
				if len(w.target.Path) >= 2 {
					member := w.target.Path[0]
					t := fieldTypeOf(m, "LinuxResources", member)
					if _, isPtr := t.(*types.Pointer); isPtr {
						key := "staged/" + member
						if !seen[key] {
							seen[key] = true
							okV := initView["Update:LinuxResources."+member]
							okA := initAcc["Linux.Resources."+member] || initReply["update.[].Linux.Resources."+member]
							c.ok("R14n", key, w.instr.Pos(), okV && okA, fmt.Sprintf("LinuxResources.%s is non-nil in the update request view and in every accumulator before updateResources writes through it", member),
								fmt.Sprintf("updateResources writes through the copy's %s, but it is not initialised in the update request (%v) or in new accumulators (%v): Copy() keeps a nil member nil and the write dereferences it", member, okV, okA))
						}
					}
				}
				continue
			default:
				continue
			}
			// prefixes that are pointer- or map-typed
			n := len(rel)
			if w.kind == "mapupdate" || w.kind == "delete" {
				n = len(rel) + 1 // the map itself must exist
			}
			for i := 1; i < n; i++ {
				prefix := strings.Join(rel[:i], ".")
				if strings.Contains(prefix, "[]") || strings.Contains(prefix, "{}") {
					break
				}
				key := strings.ToLower(w.space) + "/" + pfx + prefix
				if seen[key] {
					continue
				}
				seen[key] = true
				if !set[pfx+prefix] && readThrough[pfx+prefix] && w.space == "view" {
					continue // the constructor dereferences it itself: a precondition on the runtime's request
				}
				c.ok("R14n", key, w.instr.Pos(), set[pfx+prefix], fmt.Sprintf("%s %s is initialised before %s writes through it", w.space, prefix, mf.fn.Name()),
					fmt.Sprintf("%s writes through %s of the %s, which %s does not initialise: for a runtime request that leaves it unset the first plugin adjusting it crashes the runtime (nil dereference / assignment to entry in nil map)", mf.fn.Name(), prefix, w.space, where))
			}
		}
	}
}

func fieldTypeOf(m *Module, typ, field string) types.Type {
	st := m.structOf(pkgAPI, typ)
	for i := 0; i < st.NumFields(); i++ {
		if fname(st.Field(i)) == field {
			return st.Field(i).Type()
		}
	}
	return nil
}

// ruleR14m: accumulated maps are only created when absent.
func (ma *mergeAnalysis) ruleR14m(c *Ctx) {
	m := c.M
	c.rule("R14m", "maps are created only when absent: every store of a newly made map into the reply, the request view, the update accumulator or a staged copy is controlled by the nil test of that very member, so entries collected from the request and from earlier plugins are never discarded", 1)
	for _, mf := range ma.fns {
		ord := map[string]int{}
		for _, w := range mf.writes {
			if w.kind != "store" {
				continue
			}
			if _, isMake := w.val.(*ssa.MakeMap); !isMake {
				continue
			}
			base := mf.fn.Name() + "/" + w.space + "/" + w.target.PathString()
			ord[base]++
			key := base
			if ord[base] > 1 {
				key = fmt.Sprintf("%s#%d", base, ord[base])
			}
			okNil := false
			for _, cd := range controls(w.block()) {
				cd = normCond(cd)
				bo, ok := cd.V.(*ssa.BinOp)
				if !ok || !isNilConst(bo.Y) || !((bo.Op == token.EQL && cd.Pol) || (bo.Op == token.NEQ && !cd.Pol)) {
					continue
				}
				a := m.ap(bo.X)
				if a.Root == w.target.Root && a.PathString() == w.target.PathString() {
					okNil = true
				}
			}
			c.ok("R14m", key, w.instr.Pos(), okNil, fmt.Sprintf("%s creates the map %s only when it is nil", mf.fn.Name(), w.target.PathString()),
				"a new map is stored without the member having been found nil: the keys already there (from the runtime's request or set by earlier plugins) are dropped from what later plugins see and from the result")
		}
	}
}
