package main

import (
	"fmt"
	"go/token"
	"go/types"
	"strings"

	"golang.org/x/tools/go/ssa"
)

const pkgRTGen = "github.com/opencontainers/runtime-tools/generate"

func init() {
	register("C13", &propInfo{
		run: func(c *Ctx) {
			genRules(c, "G1", "G2", "G3", "G4")
			ruleG6(c)
			ruleG7(c)
			ruleV6(c)
		},
		explanation: "Decides the order-independence and completeness structure of the OCI spec generator: in every Adjust* function no removal-marked delete of a piece of spec state can run after an insert into the same state (so a set wins over a removal of the same key whatever the map or list order), a keyed table built from an adjustment list consults the marker when inserting, no map range produces order-dependent output; Generator.Adjust passes every field of the adjustment to a function and returns every error; every listed resource field, cgroups path, OOM score, args, rlimits, the six hook lists and CDI devices are fed to a spec setter under the field's own presence test; mounts are re-sorted after the last added mount on every successful path and the comparator orders by path depth then destination; the env separator agrees across the four places that split or join it. A keyed setter of a list inside a range over a map counts as order-dependent; a pointer passed to a setter in a loop is never the address of a variable declared outside the loop.",
		notDecided: []string{
			"that everything else in the spec is left untouched",
			"the comparator as an order relation on values",
			"the values the runtime-tools setters store",
		},
	})
}

type genEffectKind int

const (
	effInsert genEffectKind = 1 << iota
	effDelete
)

type genEffects map[string]genEffectKind // sub-state path -> kinds

var genEffMemo = map[*ssa.Function]genEffects{}

// isGeneratorMethod: method of the runtime-tools Generator or of nri's wrapper.
func isGeneratorMethod(f *ssa.Function) bool {
	rn := recvNamed(f)
	if rn == nil || rn.Obj().Name() != "Generator" || rn.Obj().Pkg() == nil {
		return false
	}
	p := rn.Obj().Pkg().Path()
	return p == pkgRTGen || p == pkgGen
}

// genEffect summarises what a generator method does to the spec: inserts
// (stores data derived from its arguments into Config.<sub>) and deletes
// (builtin delete, or a store into a Config slice/pointer field of a value that
// carries no argument data: re-slice, filter, nil).
func genEffect(m *Module, f *ssa.Function, depth int) genEffects {
	if e, ok := genEffMemo[f]; ok {
		return e
	}
	eff := genEffects{}
	if f == nil || f.Blocks == nil || depth > 3 {
		return eff
	}
	genEffMemo[f] = eff
	recv := f.Params[0]
	fromArgs := func(v ssa.Value) bool {
		for _, p := range f.Params[1:] {
			if derivedFrom(v, p) {
				return true
			}
		}
		return false
	}
	sub := func(a AP) (string, bool) {
		if a.Root != ssa.Value(recv) {
			return "", false
		}
		p := a.Path
		for len(p) > 0 && (p[0] == "Generator" || p[0] == "Config") {
			p = p[1:]
		}
		if len(p) == len(a.Path) {
			return "", false // not under Config
		}
		var out []string
		for _, s := range p {
			if s == "[]" || s == "{}" {
				break
			}
			out = append(out, s)
		}
		if len(out) == 0 {
			return "", false
		}
		return strings.Join(out, "."), true
	}
	for _, b := range f.Blocks {
		for _, in := range b.Instrs {
			switch x := in.(type) {
			case *ssa.Store:
				if s, ok := sub(m.ap(x.Addr)); ok {
					if fromArgs(x.Val) {
						eff[s] |= effInsert
					} else {
						switch x.Val.Type().Underlying().(type) {
						case *types.Slice, *types.Pointer, *types.Map:
							// a fresh empty object is initialisation, not deletion
							if _, fresh := x.Val.(*ssa.Alloc); fresh {
								continue
							}
							if _, fresh := x.Val.(*ssa.MakeMap); fresh {
								continue
							}
							if _, fresh := x.Val.(*ssa.MakeSlice); fresh {
								continue
							}
							eff[s] |= effDelete
						}
					}
				}
			case *ssa.MapUpdate:
				if s, ok := sub(m.ap(x.Map)); ok && (fromArgs(x.Value) || fromArgs(x.Key)) {
					eff[s] |= effInsert
				}
			case *ssa.Call:
				if bi, ok := x.Call.Value.(*ssa.Builtin); ok {
					if bi.Name() == "delete" {
						if s, ok := sub(m.ap(x.Call.Args[0])); ok {
							eff[s] |= effDelete
						}
					}
					continue
				}
				g := m.callee(x.Common())
				if g != nil && isGeneratorMethod(g) && len(x.Call.Args) > 0 {
					ra := m.ap(x.Call.Args[0])
					if ra.Root == ssa.Value(recv) {
						anyArg := false
						for _, a := range x.Call.Args[1:] {
							if fromArgs(a) {
								anyArg = true
							}
						}
						for s, k := range genEffect(m, g, depth+1) {
							if k&effInsert != 0 && anyArg {
								eff[s] |= effInsert
							}
							if k&effDelete != 0 {
								eff[s] |= effDelete
							}
						}
					}
				}
			}
		}
	}
	return eff
}

// adjustFamily: the nri Generator methods that take (part of) an adjustment.
func adjustFamily(m *Module) []*ssa.Function {
	var out []*ssa.Function
	for _, f := range m.methodsOf(pkgGen, "Generator") {
		if (strings.HasPrefix(f.Name(), "Adjust") || strings.HasPrefix(f.Name(), "Inject")) && len(f.Params) >= 2 {
			out = append(out, f)
		}
	}
	return out
}

func genRules(c *Ctx, which ...string) {
	want := map[string]bool{}
	for _, w := range which {
		want[w] = true
	}
	if want["G1"] {
		ruleG1(c)
	}
	if want["G2"] {
		ruleG2(c)
	}
	if want["G3"] {
		ruleG3(c)
	}
	if want["G4"] {
		ruleG4(c)
	}
	if want["G1"] {
		ruleG5(c)
	}
}

type genCall struct {
	call ssa.CallInstruction
	sub  string
	kind genEffectKind
	pol  int // removal-marker polarity of the loop element at the call
}

func ruleG1(c *Ctx) {
	m := c.M
	c.rule("G1", "order independence of the generator: in every Adjust* function no removal-marked delete of a piece of spec state is reachable from an insert into the same state (removals first, then sets; a delete-then-insert of the same unmarked key is a replace and fine)", 3)
	c.rule("G1t", "a keyed table built from an adjustment list (keyed by the marker-stripped key) consults the removal marker when inserting, so that a removal never overrides a set of the same key whatever the list order", 1)
	c.rule("G1m", "a range over a map performs no order-dependent output (no unkeyed append to an ordered list of the spec)", 0)
	fam := adjustFamily(m)
	if len(fam) < 10 {
		panic(anchorErr{fmt.Sprintf("generator adjust family has only %d members", len(fam))})
	}
	for _, f := range fam {
		mf := newMergeFn(m, f)
		var gcs []genCall
		for _, ci := range calls(f) {
			g := m.callee(ci.Common())
			if g == nil || !isGeneratorMethod(g) || g == f {
				continue
			}
			for s, k := range genEffect(m, g, 0) {
				pol := 0
				// polarity w.r.t. the loop element: any argument
				for _, a := range ci.Common().Args[1:] {
					if p := mf.elemMarked(a, ci.Block()); p != 0 {
						pol = p
					}
				}
				if pol == 0 {
					// controlled by a marker test of the element being iterated
					for _, cd := range controls(ci.Block()) {
						cd = normCond(cd)
						if ex, ok := cd.V.(*ssa.Extract); ok && ex.Index == 1 {
							if call, ok := ex.Tuple.(*ssa.Call); ok {
								if _, ok := isMarkedTestCall(m, call); ok {
									if cd.Pol {
										pol = 1
									} else {
										pol = -1
									}
									break
								}
							}
						}
					}
				}
				gcs = append(gcs, genCall{ci, s, k, pol})
			}
		}
		subs := map[string]bool{}
		for _, gc := range gcs {
			subs[gc.sub] = true
		}
		for _, s := range sortedKeys(subs) {
			var ins, del []genCall
			for _, gc := range gcs {
				if gc.sub != s {
					continue
				}
				if gc.kind&effInsert != 0 {
					ins = append(ins, gc)
				}
				if gc.kind&effDelete != 0 && gc.pol == 1 {
					del = append(del, gc)
				}
			}
			if len(del) == 0 {
				continue
			}
			bad := ""
			for _, d := range del {
				for _, i := range ins {
					if i.call == d.call {
						continue
					}
					if instrCanReach(i.call, d.call) {
						bad = fmt.Sprintf("the removal at %s (%s) can run after the set at %s (%s): whether a set survives a removal of the same key depends on map/list order", c.pos(d.call.Pos()), shortCallee(d.call.Common()), c.pos(i.call.Pos()), shortCallee(i.call.Common()))
					}
				}
			}
			c.ok("G1", f.Name()+"/"+s, del[0].call.Pos(), bad == "", fmt.Sprintf("%s applies removals of %s before (never after) sets", f.Name(), s), bad)
		}
		// keyed tables: MapUpdate into a local map keyed by the stripped key
		for _, b := range f.Blocks {
			for _, in := range b.Instrs {
				mu, ok := in.(*ssa.MapUpdate)
				if !ok {
					continue
				}
				if _, local := mu.Map.(*ssa.MakeMap); !local {
					continue
				}
				ex, ok := mu.Key.(*ssa.Extract)
				if !ok || ex.Index != 0 {
					continue
				}
				call, ok := ex.Tuple.(*ssa.Call)
				if !ok {
					continue
				}
				if _, ok := isMarkedTestCall(m, call); !ok {
					continue
				}
				// does the marked flag of this very test influence a branch that precedes the insertion?
				used := false
				for _, r := range *call.Referrers() {
					if e1, ok := r.(*ssa.Extract); ok && e1.Index == 1 {
						for _, rr := range *e1.Referrers() {
							if iff, ok := rr.(*ssa.If); ok && instrCanReach(iff, mu) {
								used = true
							}
							if ph, ok := rr.(*ssa.Phi); ok {
								for _, r3 := range *ph.Referrers() {
									if iff, ok := r3.(*ssa.If); ok && instrCanReach(iff, mu) {
										used = true
									}
								}
							}
						}
					}
				}
				c.ok("G1t", f.Name()+"/table", mu.Pos(), used, fmt.Sprintf("%s: the table keyed by the marker-stripped key distinguishes removals from sets when inserting", f.Name()),
					"marked and unmarked entries for the same key overwrite each other in list order (last writer wins): a removal listed after a set of the same key undoes the set")
			}
		}
		// map ranges: no append to output lists (order-dependent result)
		for _, b := range f.Blocks {
			for _, in := range b.Instrs {
				rg, ok := in.(*ssa.Range)
				if !ok {
					continue
				}
				if _, isMap := rg.X.Type().Underlying().(*types.Map); !isMap {
					continue
				}
				// find loop body: blocks dominated by the block holding Next's ok-branch
				bad := ""
				for _, gc := range gcs {
					if !inLoop(gc.call.Block()) {
						continue
					}
					g := m.callee(gc.call.Common())
					if g != nil && appendsToList(m, g, 0) && derivedFromRange(gc.call, rg) {
						bad = fmt.Sprintf("%s appends to an ordered list inside a range over a map: the resulting order differs from run to run", shortCallee(gc.call.Common()))
					}
				}
				c.ok("G1m", f.Name()+"/maprange", rg.Pos(), bad == "", fmt.Sprintf("%s: range over a map has no order-dependent output", f.Name()), bad)
			}
		}
	}
}

// appendsOutput: the generator method appends to a slice of the spec without keyed replacement.
// appendsOutput: g appends to a list without looking for an existing entry first (an unkeyed append).
func appendsOutput(m *Module, g *ssa.Function) bool {
	if g.Blocks == nil {
		return false
	}
	hasAppend, hasKeyed := false, false
	for _, b := range g.Blocks {
		for _, in := range b.Instrs {
			switch x := in.(type) {
			case *ssa.Store:
				if _, ok := isBuiltinCall(x.Val, "append"); ok {
					hasAppend = true
				}
			case *ssa.BinOp:
				if x.Op == token.EQL {
					hasKeyed = true
				}
			case *ssa.Lookup:
				hasKeyed = true
			}
		}
	}
	return hasAppend && !hasKeyed
}

// appendsToList: g (or a helper of the same type it calls) appends to a list at all. A keyed setter of a list
// (replace in place, else append) still appends the keys that are new, in the order it is called: inside a range
// over a map that order differs from run to run.
func appendsToList(m *Module, g *ssa.Function, depth int) bool {
	if g.Blocks == nil || depth > 2 {
		return false
	}
	for _, b := range g.Blocks {
		for _, in := range b.Instrs {
			switch x := in.(type) {
			case *ssa.Call:
				if h := m.callee(x.Common()); h != nil && h != g && recvNamed(h) != nil && recvNamed(h) == recvNamed(g) && appendsToList(m, h, depth+1) {
					return true
				}
			case *ssa.Store:
				if _, ok := isBuiltinCall(x.Val, "append"); ok {
					return true
				}
			}
		}
	}
	return false
}

func derivedFromRange(ci ssa.CallInstruction, rg *ssa.Range) bool {
	for _, a := range ci.Common().Args {
		if derivedFrom(a, rg) {
			return true
		}
	}
	return false
}

// ---------------------------------------------------------------- G2

func ruleG2(c *Ctx) {
	m := c.M
	c.rule("G2", "every adjustment field consumed: Generator.Adjust passes every exported field of ContainerAdjustment and LinuxContainerAdjustment (and the two class fields of the resources) to an Adjust*/Inject* method, and returns every error those methods return", 13)
	adj := m.method(pkgGen, "Generator", "Adjust")
	param := adj.Params[1]
	fed := map[string]*ssa.Function{}
	for _, ci := range calls(adj) {
		g := m.callee(ci.Common())
		if g == nil || !isGeneratorMethod(g) {
			continue
		}
		for _, a := range ci.Common().Args[1:] {
			ap := m.ap(a)
			if ap.Root == ssa.Value(param) {
				fed[ap.PathString()] = g
			}
		}
		// errors
		if call, ok := ci.(*ssa.Call); ok && errResult(call) != nil {
			st, d := errPropagated(m, adj, call)
			c.ok("G2", "err/"+g.Name(), ci.Pos(), st == "ok", "Generator.Adjust returns the error of "+g.Name(), d)
		}
	}
	need := func(prefix, tn string, skip map[string]bool) {
		st := m.structOf(pkgAPI, tn)
		for i := 0; i < st.NumFields(); i++ {
			f := st.Field(i)
			if !f.Exported() || skip[f.Name()] {
				continue
			}
			path := prefix + f.Name()
			c.ok("G2", "field/"+path, f.Pos(), fed[path] != nil, fmt.Sprintf("adjustment field %s is passed to a generator method", path),
				"Generator.Adjust never passes this field on: what plugins set there does not reach the OCI spec")
		}
	}
	need("", "ContainerAdjustment", map[string]bool{"Linux": true})
	need("Linux.", "LinuxContainerAdjustment", nil)
	for _, p := range []string{"Linux.Resources.BlockioClass", "Linux.Resources.RdtClass"} {
		c.ok("G2", "field/"+p, adj.Pos(), fed[p] != nil, fmt.Sprintf("adjustment field %s is passed to a generator method", p),
			"Generator.Adjust never passes this field on")
	}
}

// ---------------------------------------------------------------- G3

// fedPaths: access paths (below parameter idx) of values that f passes to a
// spec setter (generator method with an insert effect, a function-valued
// field of the generator, or a store into the spec), with the controlling
// presence paths.
type fedInfo struct {
	at    ssa.Instruction
	ctrls []string
}

func fedPaths(m *Module, f *ssa.Function, idx int) map[string][]fedInfo {
	return fedPathsD(m, f, idx, 0)
}

func fedPathsD(m *Module, f *ssa.Function, idx, depth int) map[string][]fedInfo {
	out := map[string][]fedInfo{}
	param := f.Params[idx]
	mf := newMergeFn(m, f)
	record := func(v ssa.Value, at ssa.Instruction) {
		var visit func(x ssa.Value, d int)
		visit = func(x ssa.Value, d int) {
			if d > 9 {
				return
			}
			a := m.ap(x)
			if a.Root == ssa.Value(param) {
				fi := fedInfo{at: at}
				for _, cd := range controls(at.Block()) {
					for _, s := range mf.condSubjects(cd) {
						if s.Root == ssa.Value(param) {
							fi.ctrls = append(fi.ctrls, s.PathString())
						}
					}
				}
				out[a.PathString()] = append(out[a.PathString()], fi)
				return
			}
			// look through local composite values: allocs, slices, conversions, address-of-field
			switch y := x.(type) {
			case *ssa.Alloc:
				for _, r := range *y.Referrers() {
					switch z := r.(type) {
					case *ssa.Store:
						if z.Addr == ssa.Value(y) {
							visit(z.Val, d+1)
						}
					case *ssa.FieldAddr:
						for _, rr := range *z.Referrers() {
							if st, ok := rr.(*ssa.Store); ok && st.Addr == ssa.Value(z) {
								visit(st.Val, d+1)
							}
						}
					case *ssa.IndexAddr:
						for _, rr := range *z.Referrers() {
							if st, ok := rr.(*ssa.Store); ok && st.Addr == ssa.Value(z) {
								visit(st.Val, d+1)
							}
						}
					}
				}
			case *ssa.MakeSlice:
				// names := make([]T, n); names[i] = …
				for _, r := range *y.Referrers() {
					if ia, ok := r.(*ssa.IndexAddr); ok {
						for _, rr := range *ia.Referrers() {
							if st, ok := rr.(*ssa.Store); ok && st.Addr == ssa.Value(ia) {
								visit(st.Val, d+1)
							}
						}
					}
				}
			case *ssa.Slice:
				visit(y.X, d+1)
			case *ssa.Convert:
				visit(y.X, d+1)
			case *ssa.ChangeType:
				visit(y.X, d+1)
			case *ssa.UnOp:
				visit(y.X, d+1)
			case *ssa.Phi:
				for _, e := range y.Edges {
					visit(e, d+1)
				}
			case *ssa.FieldAddr:
				visit(y.X, d+1)
			case *ssa.Call:
				if _, ok := isBuiltinCall(y, "append"); ok {
					for _, a := range y.Call.Args {
						visit(a, d+1)
					}
				} else if g := m.callee(y.Common()); g != nil && g.Signature.Recv() != nil && len(y.Call.Args) >= 1 {
					// pure method on the value (ToOCI, AccessString, ...)
					visit(y.Call.Args[0], d+1)
				}
			case *ssa.MakeInterface:
				visit(y.X, d+1)
			}
		}
		visit(v, 0)
	}
	for _, b := range f.Blocks {
		for _, in := range b.Instrs {
			switch x := in.(type) {
			case *ssa.Call:
				if _, isB := x.Call.Value.(*ssa.Builtin); isB {
					continue
				}
				g := m.callee(x.Common())
				isSetter := false
				if g != nil && isGeneratorMethod(g) {
					isSetter = true
				} else if g == nil && !x.Call.IsInvoke() {
					// call through a function-valued field of the generator (injectCDIDevices, ...)
					a := m.ap(x.Call.Value)
					if a.Root == ssa.Value(f.Params[0]) {
						isSetter = true
					}
				}
				if !isSetter {
					continue
				}
				args := x.Call.Args
				if g != nil {
					args = args[1:]
				}
				// a helper of the wrapper generator that is handed a part of the adjustment: what the
				// helper feeds, seen from here, below that part and under the call's own controls
				if g != nil && recvNamed(g).Obj().Pkg().Path() == pkgGen && len(g.Blocks) > 0 && depth < 3 && g != f {
					for i, a := range args {
						pa := m.ap(a)
						if pa.Root != ssa.Value(param) || len(pa.Wrap) > 0 {
							continue
						}
						var here []string
						for _, cd := range controls(x.Block()) {
							for _, s := range mf.condSubjects(cd) {
								if s.Root == ssa.Value(param) {
									here = append(here, s.PathString())
								}
							}
						}
						join := func(sub string) string {
							switch {
							case pa.PathString() == "":
								return sub
							case sub == "":
								return pa.PathString()
							}
							return pa.PathString() + "." + sub
						}
						for sub, fis := range fedPathsD(m, g, i+1, depth+1) {
							for _, fi := range fis {
								nfi := fedInfo{at: x, ctrls: append([]string{}, here...)}
								for _, cp := range fi.ctrls {
									nfi.ctrls = append(nfi.ctrls, join(cp))
								}
								out[join(sub)] = append(out[join(sub)], nfi)
							}
						}
					}
				}
				for _, a := range args {
					record(a, x)
				}
			case *ssa.Store:
				a := m.ap(x.Addr)
				if a.Root == ssa.Value(f.Params[0]) && a.HasPrefix("Generator", "Config") || a.Root == ssa.Value(f.Params[0]) && a.HasPrefix("Config") {
					record(x.Val, x)
				}
			}
		}
	}
	return out
}

func ruleG3(c *Ctx) {
	m := c.M
	c.rule("G3", "listed setters present: every CPU field, the memory limit, hugepage (size, limit), unified (key, value), pids limit, cgroups path, OOM score, args, rlimit (type, hard, soft), the six hook lists and CDI device names are fed from the adjustment into a spec setter, each under a presence test of that very field", 25)
	type req struct {
		fn    string
		path  string
		guard string // required controlling path ("" = the fed path itself or a prefix of it)
	}
	var reqs []req
	cpu := m.structOf(pkgAPI, "LinuxCPU")
	for i := 0; i < cpu.NumFields(); i++ {
		if cpu.Field(i).Exported() {
			reqs = append(reqs, req{"AdjustResources", "Cpu." + fname(cpu.Field(i)), ""})
		}
	}
	reqs = append(reqs,
		req{"AdjustResources", "Memory.Limit", ""},
		req{"AdjustResources", "HugepageLimits.[].PageSize", "HugepageLimits"},
		req{"AdjustResources", "HugepageLimits.[].Limit", "HugepageLimits"},
		req{"AdjustResources", "Unified.{key}", "Unified"},
		req{"AdjustResources", "Unified.{}", "Unified"},
		req{"AdjustResources", "Pids.Limit", "Pids"},
		req{"AdjustCgroupsPath", "", ""},
		req{"AdjustOomScoreAdj", "Value", "<param>"},
		req{"AdjustArgs", "", ""},
		req{"AdjustRlimits", "[].Type", ""},
		req{"AdjustRlimits", "[].Hard", ""},
		req{"AdjustRlimits", "[].Soft", ""},
		req{"InjectCDIDevices", "[].Name", ""},
		req{"AdjustBlockIOClass", "", ""},
		req{"AdjustRdtClass", "", ""},
	)
	hooks := m.structOf(pkgAPI, "Hooks")
	for i := 0; i < hooks.NumFields(); i++ {
		if hooks.Field(i).Exported() {
			reqs = append(reqs, req{"AdjustHooks", fname(hooks.Field(i)) + ".[]", fname(hooks.Field(i))})
		}
	}
	cache := map[string]map[string][]fedInfo{}
	for _, r := range reqs {
		f := m.method(pkgGen, "Generator", r.fn)
		if cache[r.fn] == nil {
			cache[r.fn] = fedPaths(m, f, 1)
		}
		fed := cache[r.fn][r.path]
		key := r.fn + "/" + r.path
		what := fmt.Sprintf("%s feeds %q of its argument into the spec under that field's presence test", r.fn, r.path)
		if len(fed) == 0 {
			// allow dereference / wrapper steps: any fed path with this prefix
			for p, fi := range cache[r.fn] {
				if r.path != "" && strings.HasPrefix(p, r.path) {
					fed = fi
				}
			}
		}
		if len(fed) == 0 {
			c.violate("G3", key, f.Pos(), what, "no spec setter receives this value: the requested change does not appear in the spec")
			continue
		}
		guard := r.guard
		if guard == "" {
			guard = r.path
		}
		okg := false
		for _, fi := range fed {
			if guard == "" {
				// the whole parameter: any control on the parameter itself, or unconditional for lists
				okg = true
			}
			for _, cp := range fi.ctrls {
				if guard == "<param>" && cp == "" {
					okg = true
				}
				if cp == guard || strings.HasPrefix(cp, guard+".") && guard != "" {
					okg = true
				}
			}
			// iteration over a list is its own presence test
			if strings.Contains(r.path, "[]") || strings.Contains(r.path, "{") {
				okg = true
			}
		}
		c.ok("G3", key, fed[0].at.Pos(), okg, what, "the setter call is not controlled by a presence test of the field it applies: an unset field overwrites the spec (or a set field is skipped)")
	}
}

// ---------------------------------------------------------------- G4

func ruleG4(c *Ctx) {
	m := c.M
	c.rule("G4", "mounts re-sorted: on every successful path of AdjustMounts the mount list is sorted after the last AddMount; the comparator compares path depth before destination, depth being the number of separators of the cleaned destination", 3)
	f := m.method(pkgGen, "Generator", "AdjustMounts")
	// the sorting step: a function of this package called by AdjustMounts that hands the mounts to sort.Sort / sort.Stable
	isSortCall := func(ci ssa.CallInstruction) bool {
		g := m.callee(ci.Common())
		return g != nil && (g.String() == "sort.Sort" || g.String() == "sort.Stable")
	}
	var sortM *ssa.Function
	inline := false
	for _, ci := range calls(f) {
		if isSortCall(ci) {
			// the sorting step written out in AdjustMounts itself
			sortM, inline = f, true
			continue
		}
		g := m.callee(ci.Common())
		if g == nil || g.Pkg == nil || g.Pkg.Pkg.Path() != pkgGen || len(g.Blocks) == 0 {
			continue
		}
		for _, ci2 := range calls(g) {
			if isSortCall(ci2) && !inline {
				sortM = g
			}
		}
	}
	if sortM == nil {
		c.violate("G4", "AdjustMounts/sort", f.Pos(), "AdjustMounts sorts the mounts after the last added mount on every successful path", "AdjustMounts calls no function of this package that sorts (sort.Sort / sort.Stable): mounts are applied in the order the plugins listed them, a mount may precede the mount of its parent directory")
		return
	}
	var adds, sorts []ssa.CallInstruction
	for _, ci := range calls(f) {
		g := m.callee(ci.Common())
		if g == nil {
			continue
		}
		if g == sortM || (inline && isSortCall(ci)) {
			sorts = append(sorts, ci)
		}
		if isGeneratorMethod(g) && genEffect(m, g, 0)["Mounts"]&effInsert != 0 && g != sortM {
			adds = append(adds, ci)
		}
	}
	bad := ""
	if len(adds) == 0 {
		bad = "no call adding a mount found in AdjustMounts"
	}
	if bad == "" {
		for _, r := range returnsOf(f) {
			mayNil := false
			for _, v := range returnValues(r, 0) {
				if isNilConst(v) {
					mayNil = true
				}
			}
			if !mayNil {
				continue
			}
			for _, a := range adds {
				if !instrCanReach(a, r) {
					continue
				}
				covered := false
				for _, s := range sorts {
					if domInstr(s, r) && !instrCanReach(s, a) {
						covered = true
					}
				}
				if !covered {
					bad = fmt.Sprintf("the successful return at %s can be reached from the AddMount at %s without a later sort", c.pos(r.Pos()), c.pos(a.Pos()))
				}
			}
		}
	}
	c.ok("G4", "AdjustMounts/sort", f.Pos(), bad == "", "AdjustMounts sorts the mounts after the last added mount on every successful path", bad)
	// the sorting step really sorts the spec's mounts with a comparator type and stores them back
	var cmpT *types.Named
	okStore := false
	for _, ci := range calls(sortM) {
		if isSortCall(ci) {
			if mi, ok := ci.Common().Args[0].(*ssa.MakeInterface); ok {
				if n, ok := types.Unalias(mi.X.Type()).(*types.Named); ok && n.Obj().Pkg() != nil && n.Obj().Pkg().Path() == pkgGen {
					cmpT = n
				}
			}
		}
	}
	for _, b := range sortM.Blocks {
		for _, in := range b.Instrs {
			if st, ok := in.(*ssa.Store); ok {
				a := m.ap(st.Addr)
				if _, isP := a.Root.(*ssa.Parameter); isP && len(a.Path) > 0 && a.Path[len(a.Path)-1] == "Mounts" {
					okStore = true
				}
			}
		}
	}
	c.ok("G4", "sortMounts", sortM.Pos(), cmpT != nil && okStore, "the sorting step sorts with the package's mount comparator and stores the result in the spec",
		"the sorting step does not sort with a comparator type of this package or does not store the sorted list back")
	if cmpT == nil {
		return
	}
	less := m.method(pkgGen, cmpT.Obj().Name(), "Less")
	// which of Less's index parameters a value is taken at: the parameter itself, or an element m[i] (or a field of it)
	indexOf := func(v ssa.Value) ssa.Value {
		for d := 0; d < 6; d++ {
			switch x := v.(type) {
			case *ssa.Parameter:
				return x
			case *ssa.UnOp:
				v = x.X
			case *ssa.FieldAddr:
				v = x.X
			case *ssa.Field:
				v = x.X
			case *ssa.IndexAddr:
				return x.Index
			case *ssa.Index:
				return x.Index
			default:
				return nil
			}
		}
		return nil
	}
	// the depth function: called twice in Less, once per index
	var depthFn *ssa.Function
	var partCalls []*ssa.Call
	for _, ci := range calls(less) {
		call, ok := ci.(*ssa.Call)
		if !ok {
			continue
		}
		g := m.callee(call.Common())
		if g == nil || g.Pkg == nil || g.Pkg.Pkg.Path() != pkgGen || g.Signature.Results().Len() != 1 {
			continue
		}
		if depthFn == nil || depthFn == g {
			depthFn = g
			partCalls = append(partCalls, call)
		}
	}
	argIndex := func(call *ssa.Call) ssa.Value {
		for _, a := range call.Call.Args {
			if a == ssa.Value(less.Params[0]) {
				continue
			}
			if ix := indexOf(a); ix != nil {
				return ix
			}
		}
		return nil
	}
	okLess := len(partCalls) == 2
	var depthCmp, destCmp *ssa.BinOp
	for _, b := range less.Blocks {
		for _, in := range b.Instrs {
			if bo, ok := in.(*ssa.BinOp); ok && bo.Op == token.LSS {
				if len(partCalls) == 2 && bo.X == ssa.Value(partCalls[0]) && bo.Y == ssa.Value(partCalls[1]) {
					depthCmp = bo
				}
				ax, ay := m.ap(bo.X), m.ap(bo.Y)
				if len(ax.Path) > 0 && ax.Path[len(ax.Path)-1] == "Destination" && len(ay.Path) > 0 && ay.Path[len(ay.Path)-1] == "Destination" {
					destCmp = bo
				}
			}
		}
	}
	if depthCmp == nil || destCmp == nil {
		okLess = false
	} else {
		// the depth comparison's true branch returns true and it dominates the destination comparison
		iff := lastIf(depthCmp.Block())
		if iff == nil || iff.Cond != ssa.Value(depthCmp) {
			okLess = false
		} else {
			t := depthCmp.Block().Succs[0]
			if r, ok := t.Instrs[len(t.Instrs)-1].(*ssa.Return); !ok || len(r.Results) != 1 {
				okLess = false
			} else if cst, ok := r.Results[0].(*ssa.Const); !ok || cst.Value == nil || cst.Value.String() != "true" {
				okLess = false
			}
			if !depthCmp.Block().Dominates(destCmp.Block()) {
				okLess = false
			}
		}
		// operands: depth(i) < depth(j), and Destination of element i < Destination of element j
		if len(partCalls) == 2 {
			if argIndex(partCalls[0]) != ssa.Value(less.Params[1]) || argIndex(partCalls[1]) != ssa.Value(less.Params[2]) {
				okLess = false
			}
		}
		if indexOf(destCmp.X) != ssa.Value(less.Params[1]) || indexOf(destCmp.Y) != ssa.Value(less.Params[2]) {
			okLess = false
		}
	}
	c.ok("G4", "orderedMounts.Less", less.Pos(), okLess, "the comparator orders by path depth first (fewer parts first), then by destination",
		"Less does not compare depth(i) < depth(j) before comparing the destinations of i and j: a mount may be ordered before the mount of its parent directory")
	okParts := false
	if depthFn != nil {
		for _, ci := range calls(depthFn) {
			if g := m.callee(ci.Common()); g != nil && g.String() == "strings.Count" {
				if inner, ok := ci.Common().Args[0].(*ssa.Call); ok {
					if h := m.callee(inner.Common()); h != nil && h.String() == "path/filepath.Clean" {
						a := m.ap(inner.Call.Args[0])
						if len(a.Path) > 0 && a.Path[len(a.Path)-1] == "Destination" {
							okParts = true
						}
					}
				}
			}
		}
	}
	pos := less.Pos()
	if depthFn != nil {
		pos = depthFn.Pos()
	}
	c.ok("G4", "orderedMounts.parts", pos, okParts, "depth is the number of path separators in the cleaned destination",
		"the depth function does not count separators of filepath.Clean(Destination)")
}

// ---------------------------------------------------------------- V6 env separator (C13, C14)

func ruleV6(c *Ctx) {
	m := c.M
	c.rule("V6", "env separator: KeyValue.ToOCI joins key and value with the same constant separator that FromOCIEnv, the merge's splitEnvVar and the generator's AdjustEnv split on, all splitting into at most 2 parts", 4)
	type site struct {
		name string
		fn   *ssa.Function
	}
	sites := []site{
		{"KeyValue.ToOCI", m.method(pkgAPI, "KeyValue", "ToOCI")},
		{"FromOCIEnv", m.fn(pkgAPI, "FromOCIEnv")},
		{"splitEnvVar", m.fn(pkgAdapt, "splitEnvVar")},
		{"Generator.AdjustEnv", m.method(pkgGen, "Generator", "AdjustEnv")},
	}
	seps := map[string]string{}
	for _, s := range sites {
		sep, limitOK := "", true
		found := false
		for _, b := range s.fn.Blocks {
			for _, in := range b.Instrs {
				switch x := in.(type) {
				case *ssa.BinOp:
					if x.Op == token.ADD {
						if cs, ok := constString(x.Y); ok && !found {
							sep, found = cs, true
						}
					}
				case *ssa.Call:
					if g := m.callee(x.Common()); g != nil && g.String() == "strings.Cut" {
						// Cut splits at the first separator only: two parts by construction
						if cs, ok := constString(x.Call.Args[1]); ok {
							sep, found = cs, true
						}
					}
					if g := m.callee(x.Common()); g != nil && g.String() == "strings.SplitN" {
						if cs, ok := constString(x.Call.Args[1]); ok {
							sep, found = cs, true
						}
						if n, ok := constInt(x.Call.Args[2]); !ok || n != 2 {
							limitOK = false
						}
					}
				}
			}
		}
		seps[s.name] = sep
		// the joining side always joins: every entry it produces contains the separator, also for an empty value
		// ("FOO=" and "FOO" are different things to whoever splits it again)
		if s.name == "KeyValue.ToOCI" {
			always := true
			for _, r := range returnsOf(s.fn) {
				for _, v := range returnValues(r, 0) {
					bo, ok := v.(*ssa.BinOp)
					joined := false
					for d := 0; ok && d < 3; d++ {
						if bo.Op != token.ADD {
							break
						}
						if cs, isC := constString(bo.Y); isC && cs == sep {
							joined = true
						}
						if cs, isC := constString(bo.X); isC && cs == sep {
							joined = true
						}
						bo, ok = bo.X.(*ssa.BinOp)
					}
					if !joined {
						always = false
					}
				}
			}
			c.ok("V6", s.name+"/always", s.fn.Pos(), always, "every entry produced by "+s.name+" contains the separator", "some return of "+s.name+" yields an entry without the separator (e.g. a bare key for an empty value): the container shown to later plugins then differs from what the generator produces from the combined adjustment (\"FOO\" vs \"FOO=\")")
		}
		c.ok("V6", s.name, s.fn.Pos(), found && limitOK && sep == "=", fmt.Sprintf("%s uses the separator \"=\" (limit 2 when splitting)", s.name),
			fmt.Sprintf("separator %q found=%v limit2=%v: environment entries are joined and split inconsistently", sep, found, limitOK))
	}
}

// ruleG5: a set replaces.
func ruleG5(c *Ctx) {
	m := c.M
	c.rule("G5", "a set replaces: where an Adjust* function inserts into a removable piece of spec state through a setter that appends without looking for an existing entry of the same key, the insert is preceded in the same iteration by the delete of that element's key — the merge drops the removal marker of a remove-then-set and relies on this replacement", 1)
	for _, f := range adjustFamily(m) {
		type gc struct {
			ci   ssa.CallInstruction
			g    *ssa.Function
			sub  string
			kind genEffectKind
		}
		var gcs []gc
		for _, ci := range calls(f) {
			g := m.callee(ci.Common())
			if g == nil || !isGeneratorMethod(g) || g == f {
				continue
			}
			for s, k := range genEffect(m, g, 0) {
				gcs = append(gcs, gc{ci, g, s, k})
			}
		}
		for _, ins := range gcs {
			if ins.kind&effInsert == 0 || !appendsOutput(m, ins.g) {
				continue
			}
			// only for removable state: the function also deletes from it somewhere
			removable := false
			for _, d := range gcs {
				if d.sub == ins.sub && d.kind&effDelete != 0 {
					removable = true
				}
			}
			if !removable {
				continue
			}
			okR := false
			for _, d := range gcs {
				if d.sub != ins.sub || d.kind&effDelete == 0 || !domInstr(d.ci, ins.ci) {
					continue
				}
				// same element: the delete's key and the insert's value derive from the same loop element
				for _, da := range d.ci.Common().Args[1:] {
					for _, ia := range ins.ci.Common().Args[1:] {
						if sameLoopElem(da, ia) {
							okR = true
						}
					}
				}
			}
			c.ok("G5", f.Name()+"/"+ins.sub, ins.ci.Pos(), okR, fmt.Sprintf("%s replaces an existing %s entry of the same key when it sets one", f.Name(), ins.sub),
				fmt.Sprintf("%s appends without removing an existing entry of the same key first: a set of a key that already exists in the spec (an original item the plugin removed and re-added, or overrode) leaves two entries", shortCallee(ins.ci.Common())))
		}
	}
}

// sameLoopElem: both values derive from the same range element (possibly through calls on it).
func sameLoopElem(a, b ssa.Value) bool {
	ra, rb := rangeElemOf(a, 0), rangeElemOf(b, 0)
	return ra != nil && ra == rb
}

func rangeElemOf(v ssa.Value, d int) ssa.Value {
	if d > 10 || v == nil {
		return nil
	}
	switch x := v.(type) {
	case *ssa.IndexAddr:
		return x
	case *ssa.Next:
		return x
	case *ssa.UnOp:
		if al, ok := x.X.(*ssa.Alloc); ok {
			// local copy of a value computed from the element
			for _, r := range *al.Referrers() {
				if st, ok := r.(*ssa.Store); ok && st.Addr == ssa.Value(al) {
					if e := rangeElemOf(st.Val, d+1); e != nil {
						return e
					}
				}
			}
			return nil
		}
		return rangeElemOf(x.X, d+1)
	case *ssa.FieldAddr:
		return rangeElemOf(x.X, d+1)
	case *ssa.Field:
		return rangeElemOf(x.X, d+1)
	case *ssa.Extract:
		return rangeElemOf(x.Tuple, d+1)
	case *ssa.Call:
		for _, a := range x.Call.Args {
			if e := rangeElemOf(a, d+1); e != nil {
				return e
			}
		}
	}
	return nil
}

// ---------------------------------------------------------------- G6 plugin order is kept

// isSortingCall: a call that reorders its argument (sort.*, slices.Sort*/Reverse).
func isSortingCall(m *Module, ci ssa.CallInstruction) bool {
	g := m.callee(ci.Common())
	if g == nil {
		return false
	}
	o := g
	if g.Origin() != nil {
		o = g.Origin()
	}
	if o.Pkg == nil {
		return false
	}
	switch o.Pkg.Pkg.Path() {
	case "sort":
		switch o.Name() {
		case "Sort", "Stable", "Slice", "SliceStable", "Strings", "Ints", "Float64s":
			return true
		}
	case "slices":
		return strings.HasPrefix(o.Name(), "Sort") || o.Name() == "Reverse"
	}
	return false
}

// ruleG6: neither the merge functions nor the generator's adjust functions reorder what the plugins
// listed (the one sorting step, of the spec's mounts, is the separate function decided by G4).
func ruleG6(c *Ctx) {
	m := c.M
	c.rule("G6", "plugin order is kept: no merge function and no Adjust*/Inject* function of the generator calls a sorting or reversing routine — list-valued items reach the runtime in the order the plugins (and each plugin's response) listed them; the only sort is the mount sorting step decided by G4", 20)
	var fam []*ssa.Function
	fam = append(fam, mergeFamily(m)...)
	fam = append(fam, adjustFamily(m)...)
	for _, f := range fam {
		bad := ""
		fns := append([]*ssa.Function{f}, f.AnonFuncs...)
		for _, g := range fns {
			for _, ci := range calls(g) {
				if isSortingCall(m, ci) {
					// the mount sorting step written inline: sort.Sort/Stable with the package's own comparator type (G4)
					if len(ci.Common().Args) == 1 {
						if mi, ok := ci.Common().Args[0].(*ssa.MakeInterface); ok {
							if n, ok := types.Unalias(mi.X.Type()).(*types.Named); ok && n.Obj().Pkg() != nil && n.Obj().Pkg().Path() == pkgGen {
								continue
							}
						}
					}
					bad = fmt.Sprintf("%s is called at %s", m.calleeName(ci.Common()), c.pos(ci.Pos()))
				}
			}
		}
		c.ok("G6", funcKey(f), f.Pos(), bad == "", funcKey(f)+" keeps the order of the lists it is given", bad+": the combined adjustment is applied in a different order than the plugins' individual adjustments would be (devices, CDI devices, hooks, env and args are order-sensitive)")
	}
}

// ---------------------------------------------------------------- G7 no variable shared between iterations

// ruleG7: a pointer handed to a spec setter inside a loop does not point to a variable that lives across iterations.
func ruleG7(c *Ctx) {
	m := c.M
	c.rule("G7", "no aliasing across iterations: a pointer passed to a spec setter inside a loop of an Adjust*/Inject* function points into the element being applied or to a variable of that iteration, never to a variable declared outside the loop (the setters keep the pointer, so every entry added by the loop would end up showing the last element's value)", 0)
	n := 0
	for _, f := range adjustFamily(m) {
		for _, ci := range calls(f) {
			g := m.callee(ci.Common())
			if g == nil || !isGeneratorMethod(g) || !inLoop(ci.Block()) {
				continue
			}
			hdr := loopHeader(ci.Block())
			for i, a := range ci.Common().Args {
				if _, isPtr := a.Type().Underlying().(*types.Pointer); !isPtr || i == 0 {
					continue
				}
				n++
				al, isAlloc := a.(*ssa.Alloc)
				if !isAlloc {
					c.add("G7", fmt.Sprintf("%s/%s/arg%d#%d", f.Name(), g.Name(), i, n), ci.Pos(), Discharged, "the pointer passed points into the element or to a fresh object", "")
					continue
				}
				// the variable is created inside the loop (one per iteration)
				inside := hdr != nil && hdr.Dominates(al.Block()) && canReach(al.Block(), hdr) && al.Block() != hdr
				c.ok("G7", fmt.Sprintf("%s/%s/arg%d#%d", f.Name(), g.Name(), i, n), ci.Pos(), inside, "the variable whose address is passed is created anew in every iteration",
					"the address of a variable declared outside the loop is passed to "+g.Name()+" on every iteration: the setter keeps the pointer, so all entries added by this loop share one variable and show the values of the last element")
			}
		}
	}
}
