package main

import (
	_ "embed"
	"encoding/json"
	"fmt"
	"go/token"
	"go/types"
	"sort"
	"strings"

	"golang.org/x/tools/go/ssa"
)

// names.json is the reference table of today's function and method names with their signatures
// (generated with `nricheck -dump-names`). It is used for one thing only: when a rule's anchor no
// longer resolves by name, the anchor is re-resolved to the one function of the same package (and
// receiver type) that is not in the table and has the recorded signature — a pure rename. Anything
// else (no candidate, several candidates) still fails closed.
//
//go:embed names.json
var namesJSON []byte

type nameTable map[string]map[string]map[string]string // package -> receiver type ("" for functions) -> name -> signature

var refNames nameTable

var pluginModuleDirs = []string{"plugins/device-injector", "plugins/ulimit-adjuster"}

func loadNames() nameTable {
	if refNames == nil {
		refNames = nameTable{}
		_ = json.Unmarshal(namesJSON, &refNames)
	}
	return refNames
}

func sigString(f *ssa.Function) string {
	pkg := f.Pkg.Pkg
	q := func(p *types.Package) string {
		if p == pkg {
			return ""
		}
		return p.Path()
	}
	tuple := func(t *types.Tuple) string {
		var parts []string
		for i := 0; i < t.Len(); i++ {
			parts = append(parts, types.TypeString(t.At(i).Type(), q))
		}
		return "(" + strings.Join(parts, ", ") + ")"
	}
	s := "func" + tuple(f.Signature.Params())
	if f.Signature.Variadic() {
		s += "..."
	}
	return s + " " + tuple(f.Signature.Results())
}

// currentNames lists the declared functions and methods of the module's packages.
func (m *Module) currentNames() nameTable {
	out := nameTable{}
	for path, p := range m.SSA {
		if p == nil || !strings.HasPrefix(path, modPath) {
			continue
		}
		out[path] = map[string]map[string]string{"": {}}
		for _, mem := range p.Members {
			switch x := mem.(type) {
			case *ssa.Function:
				if x.Synthetic == "" {
					out[path][""][x.Name()] = sigString(x)
				}
			case *ssa.Type:
				n, ok := types.Unalias(x.Type()).(*types.Named)
				if !ok {
					continue
				}
				for i := 0; i < n.NumMethods(); i++ {
					if f := m.Prog.FuncValue(n.Method(i)); f != nil && f.Synthetic == "" {
						if out[path][x.Name()] == nil {
							out[path][x.Name()] = map[string]string{}
						}
						out[path][x.Name()][f.Name()] = sigString(f)
					}
				}
			}
		}
	}
	return out
}

// fieldCanon maps a struct field that was renamed (relative to names.json) to its reference name, so
// that access paths and field-keyed rules keep speaking the reference vocabulary. Only unambiguous
// renames are mapped: the struct lost exactly one field of that type and gained exactly one.
var fieldCanon = map[*types.Var]string{}

// fname is the (reference) name of a struct field.
func fname(v *types.Var) string {
	if n, ok := fieldCanon[v]; ok {
		return n
	}
	return v.Name()
}

func fieldTypeString(pkg *types.Package, v *types.Var) string {
	return types.TypeString(v.Type(), func(p *types.Package) string {
		if p == pkg {
			return ""
		}
		return p.Path()
	})
}

// currentFields lists the fields of the struct types declared in the module's packages.
func (m *Module) currentFields() map[string]map[string]map[string]string {
	out := map[string]map[string]map[string]string{}
	for path, p := range m.SSA {
		if p == nil || !strings.HasPrefix(path, modPath) {
			continue
		}
		for _, mem := range p.Members {
			t, ok := mem.(*ssa.Type)
			if !ok {
				continue
			}
			st, ok := t.Type().Underlying().(*types.Struct)
			if !ok {
				continue
			}
			fs := map[string]string{}
			ord := map[string]string{}
			for i := 0; i < st.NumFields(); i++ {
				fs[st.Field(i).Name()] = fieldTypeString(p.Pkg, st.Field(i))
				ord[st.Field(i).Name()] = fmt.Sprintf("%03d", i)
			}
			if out[path] == nil {
				out[path] = map[string]map[string]string{}
			}
			out[path][t.Name()+"#fields"] = fs
			out[path][t.Name()+"#order"] = ord
		}
	}
	return out
}

// typeCanon maps a renamed (unexported) type to its reference name: the package lost exactly one type
// with that set of fields (or, for non-struct types, methods) and gained exactly one.
var typeCanon = map[*types.TypeName]string{}

// tname is the (reference) name of a named type.
func tname(o *types.TypeName) string {
	if n, ok := typeCanon[o]; ok {
		return n
	}
	return o.Name()
}

func sameKeys(a, b map[string]string) bool {
	if len(a) != len(b) || len(a) == 0 {
		return false
	}
	for k := range a {
		if _, ok := b[k]; !ok {
			return false
		}
	}
	return true
}

func (m *Module) canonTypes() {
	ref := loadNames()
	cur := m.currentNames()
	curF := m.currentFields()
	for path, p := range m.SSA {
		if p == nil || ref[path] == nil {
			continue
		}
		shape := func(tab map[string]map[string]string, fields map[string]map[string]string, t string) map[string]string {
			if fs, ok := fields[t+"#fields"]; ok && len(fs) > 0 {
				return fs
			}
			return tab[t]
		}
		var gone, added []string
		for t := range ref[path] {
			if t == "" || strings.HasSuffix(t, "#fields") || strings.HasSuffix(t, "#order") {
				continue
			}
			if p.Pkg.Scope().Lookup(t) == nil {
				gone = append(gone, t)
			}
		}
		for _, mem := range p.Members {
			if t, ok := mem.(*ssa.Type); ok {
				_, k1 := ref[path][t.Name()]
				_, k2 := ref[path][t.Name()+"#fields"]
				if !k1 && !k2 && !token.IsExported(t.Name()) {
					added = append(added, t.Name())
				}
			}
		}
		sort.Strings(gone)
		sort.Strings(added)
		for _, a := range added {
			var match []string
			for _, g := range gone {
				if sameKeys(shape(ref[path], ref[path], g), shape(cur[path], curF[path], a)) {
					match = append(match, g)
				}
			}
			if len(match) != 1 {
				continue
			}
			n := 0
			for _, a2 := range added {
				if sameKeys(shape(ref[path], ref[path], match[0]), shape(cur[path], curF[path], a2)) {
					n++
				}
			}
			if n != 1 {
				continue
			}
			if tn, ok := p.Pkg.Scope().Lookup(a).(*types.TypeName); ok {
				typeCanon[tn] = match[0]
				if m.renames == nil {
					m.renames = map[string]string{}
				}
				m.renames[fmt.Sprintf("%s.%s (type)", path, match[0])] = a
			}
		}
	}
}

// curType translates a reference type name into the name the type has in the loaded tree.
func (m *Module) curType(pkg, typ string) string {
	for tn, refName := range typeCanon {
		if refName == typ && tn.Pkg() != nil && tn.Pkg().Path() == pkg {
			return tn.Name()
		}
	}
	return typ
}

// lockHome names a lock that lives in a small wrapper type by the one struct field that holds the
// wrapper: type T struct{ mu sync.(RW)Mutex; … } used as the type of exactly one field S.F (by value)
// gives every lock of T the name "S.F". A mutex wrapped together with its data keeps its identity.
var lockHome = map[*types.Named]string{}

func isSyncLockType(t types.Type) bool {
	n, ok := types.Unalias(t).(*types.Named)
	return ok && n.Obj().Pkg() != nil && n.Obj().Pkg().Path() == "sync" && (n.Obj().Name() == "Mutex" || n.Obj().Name() == "RWMutex")
}

func (m *Module) canonLocks() {
	users := map[*types.Named][]string{}
	for path, p := range m.SSA {
		if p == nil || !strings.HasPrefix(path, modPath) {
			continue
		}
		for _, mem := range p.Members {
			t, ok := mem.(*ssa.Type)
			if !ok {
				continue
			}
			st, ok := t.Type().Underlying().(*types.Struct)
			if !ok {
				continue
			}
			owner, _ := t.Object().(*types.TypeName)
			for i := 0; i < st.NumFields(); i++ {
				f := st.Field(i)
				w, ok := types.Unalias(f.Type()).(*types.Named)
				if !ok || w.Obj().Pkg() == nil || w.Obj().Pkg().Path() != path {
					continue
				}
				ws, ok := w.Underlying().(*types.Struct)
				if !ok {
					continue
				}
				locks := 0
				for j := 0; j < ws.NumFields(); j++ {
					if isSyncLockType(ws.Field(j).Type()) {
						locks++
					}
				}
				if locks == 1 && owner != nil {
					users[w] = append(users[w], tname(owner)+"."+fname(f))
				}
			}
		}
	}
	for w, us := range users {
		if len(us) == 1 {
			lockHome[w] = us[0]
		}
	}
}

// canonFields fills fieldCanon for the loaded module.
func (m *Module) canonFields() {
	ref := loadNames()
	for path, p := range m.SSA {
		if p == nil || ref[path] == nil {
			continue
		}
		for _, mem := range p.Members {
			t, ok := mem.(*ssa.Type)
			if !ok {
				continue
			}
			st, ok := t.Type().Underlying().(*types.Struct)
			if !ok {
				continue
			}
			refT := t.Name()
			if tn, ok := t.Object().(*types.TypeName); ok {
				refT = tname(tn)
			}
			rf, ok := ref[path][refT+"#fields"]
			if !ok {
				continue
			}
			cur := map[string]bool{}
			for i := 0; i < st.NumFields(); i++ {
				cur[st.Field(i).Name()] = true
			}
			// per field type: the reference fields that are gone (in reference order) and the new fields (in current
			// order); equally many of a type are paired in order (renaming does not usually reorder)
			ro := ref[path][refT+"#order"]
			goneBy := map[string][]string{}
			for n, rts := range rf {
				if !cur[n] {
					goneBy[rts] = append(goneBy[rts], n)
				}
			}
			for ts := range goneBy {
				g := goneBy[ts]
				sort.Slice(g, func(i, j int) bool { return ro[g[i]] < ro[g[j]] })
			}
			addedBy := map[string][]*types.Var{}
			for i := 0; i < st.NumFields(); i++ {
				f := st.Field(i)
				if _, known := rf[f.Name()]; known || f.Exported() {
					continue
				}
				ts := fieldTypeString(p.Pkg, f)
				addedBy[ts] = append(addedBy[ts], f)
			}
			for ts, added := range addedBy {
				gone := goneBy[ts]
				if len(gone) != len(added) || (len(gone) > 1 && ro == nil) {
					continue
				}
				for i, f := range added {
					fieldCanon[f] = gone[i]
					if m.renames == nil {
						m.renames = map[string]string{}
					}
					m.renames[fmt.Sprintf("%s.%s.%s (field)", path, refT, gone[i])] = f.Name()
				}
			}
		}
	}
}

// renamed resolves an anchor that is not found under its reference name.
func (m *Module) renamed(pkg, typ, name string) *ssa.Function {
	ref := loadNames()
	want, ok := ref[pkg][typ][name]
	if !ok {
		return nil
	}
	cur := m.currentNames()
	var cands []string
	for n, sig := range cur[pkg][m.curType(pkg, typ)] {
		if _, known := ref[pkg][typ][n]; !known && sig == want {
			cands = append(cands, n)
		}
	}
	sort.Strings(cands)
	if len(cands) != 1 {
		return nil
	}
	var f *ssa.Function
	if typ == "" {
		f = m.SSA[pkg].Func(cands[0])
	} else {
		f = m.methodOpt(pkg, typ, cands[0])
	}
	if f != nil {
		if m.renames == nil {
			m.renames = map[string]string{}
		}
		m.renames[fmt.Sprintf("%s.%s.%s", pkg, typ, name)] = cands[0]
	}
	return f
}
