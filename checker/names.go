package main

import (
	_ "embed"
	"encoding/json"
	"fmt"
	"go/types"
	"sort"
	"strings"

	"golang.org/x/tools/go/ssa"
)

// names.json is the reference table of today's function and method names with their signatures
// (generated with `nricheck -dump-names`). It is used for one thing only: when a rule's anchor no
// longer resolves by name, the anchor is re-resolved to the one function of the same package (and
// receiver type) that is not in the table and has the recorded signature — a pure rename. Anything
// else (no candidate, several candidates) still fails closed.
//
//go:embed names.json
var namesJSON []byte

type nameTable map[string]map[string]map[string]string // package -> receiver type ("" for functions) -> name -> signature

var refNames nameTable

var pluginModuleDirs = []string{"plugins/device-injector", "plugins/ulimit-adjuster"}

func loadNames() nameTable {
	if refNames == nil {
		refNames = nameTable{}
		_ = json.Unmarshal(namesJSON, &refNames)
	}
	return refNames
}

func sigString(f *ssa.Function) string {
	pkg := f.Pkg.Pkg
	q := func(p *types.Package) string {
		if p == pkg {
			return ""
		}
		return p.Path()
	}
	tuple := func(t *types.Tuple) string {
		var parts []string
		for i := 0; i < t.Len(); i++ {
			parts = append(parts, types.TypeString(t.At(i).Type(), q))
		}
		return "(" + strings.Join(parts, ", ") + ")"
	}
	s := "func" + tuple(f.Signature.Params())
	if f.Signature.Variadic() {
		s += "..."
	}
	return s + " " + tuple(f.Signature.Results())
}

// currentNames lists the declared functions and methods of the module's packages.
func (m *Module) currentNames() nameTable {
	out := nameTable{}
	for path, p := range m.SSA {
		if p == nil || !strings.HasPrefix(path, modPath) {
			continue
		}
		out[path] = map[string]map[string]string{"": {}}
		for _, mem := range p.Members {
			switch x := mem.(type) {
			case *ssa.Function:
				if x.Synthetic == "" {
					out[path][""][x.Name()] = sigString(x)
				}
			case *ssa.Type:
				n, ok := types.Unalias(x.Type()).(*types.Named)
				if !ok {
					continue
				}
				for i := 0; i < n.NumMethods(); i++ {
					if f := m.Prog.FuncValue(n.Method(i)); f != nil && f.Synthetic == "" {
						if out[path][x.Name()] == nil {
							out[path][x.Name()] = map[string]string{}
						}
						out[path][x.Name()][f.Name()] = sigString(f)
					}
				}
			}
		}
	}
	return out
}

// renamed resolves an anchor that is not found under its reference name.
func (m *Module) renamed(pkg, typ, name string) *ssa.Function {
	ref := loadNames()
	want, ok := ref[pkg][typ][name]
	if !ok {
		return nil
	}
	cur := m.currentNames()
	var cands []string
	for n, sig := range cur[pkg][typ] {
		if _, known := ref[pkg][typ][n]; !known && sig == want {
			cands = append(cands, n)
		}
	}
	sort.Strings(cands)
	if len(cands) != 1 {
		return nil
	}
	var f *ssa.Function
	if typ == "" {
		f = m.SSA[pkg].Func(cands[0])
	} else {
		f = m.methodOpt(pkg, typ, cands[0])
	}
	if f != nil {
		if m.renames == nil {
			m.renames = map[string]string{}
		}
		m.renames[fmt.Sprintf("%s.%s.%s", pkg, typ, name)] = cands[0]
	}
	return f
}
