package main

import (
	"fmt"
	"go/token"
	"go/types"
	"path/filepath"
	"sort"
	"strings"

	"golang.org/x/tools/go/ssa"
)

const (
	pkgInjector = modPath + "/plugins/device-injector"
	pkgAdjuster = modPath + "/plugins/ulimit-adjuster"
)

func init() {
	register("C20", &propInfo{
		run: func(c *Ctx) {
			inj, err := loadModule(filepath.Join(c.Repo, "plugins", "device-injector"), false, nil)
			if err != nil {
				panic(anchorErr{"device-injector module: " + err.Error()})
			}
			adj, err := loadModule(filepath.Join(c.Repo, "plugins", "ulimit-adjuster"), false, nil)
			if err != nil {
				panic(anchorErr{"ulimit-adjuster module: " + err.Error()})
			}
			inj.funcs()
			adj.funcs()
			c.configs = append(c.configs, "linux/amd64: modules plugins/device-injector and plugins/ulimit-adjuster (each with replace => ../..)")
			ruleJ1(c, inj, adj)
			ruleJ2(c, inj, pkgInjector, "inj")
			ruleJ2(c, adj, pkgAdjuster, "adj")
			ruleJ5(c, inj, pkgInjector, "inj")
			ruleJ5(c, adj, pkgAdjuster, "adj")
			ruleJ3(c, adj)
			ruleJ4(c, inj)
		},
		explanation: "Decides the lookup and all-or-nothing structure of the two sample plugins (analysed in their own modules): the injector's candidate annotation keys are key/container.<name>, key/pod, key in that order and the adjuster's is key/container.<name> only, the name being the container's own name; the annotation map is only ever indexed with these exact keys (never ranged over or prefix-matched) and the first hit wins; every return carrying a non-nil error returns nil for the adjustment and the updates, and every error of a helper is returned by its caller up to CreateContainer; an rlimit is emitted only on the branch where hard >= soft, with the type that passed the lookup in the table of valid names after upper-casing and prefix-trimming, re-prefixed; the annotation-to-NRI conversions cover every field of the annotation structs under the same name, and their optional-constructor calls pass accepted types. Errors of helpers called through function values are propagated at once as well. Nothing but the hard/soft test controls the emission of an rlimit; the plugins keep no package-level state between requests.",
		notDecided: []string{
			"YAML decoding",
			"the end-to-end behaviour through the stub and the runtime",
		},
	})
}

func posIn(c *Ctx, m *Module, p token.Pos) string { return relPos(m.Fset, c.Repo, p) }

func ruleJ1(c *Ctx, inj, adj *Module) {
	c.rule("J1", "exact, most-specific-first lookup: the candidate keys are key+\"/container.\"+name, key+\"/pod\", key in that order for the injector and key+\"/container.\"+name only for the adjuster, with name the container's own name; the annotation map is only indexed with these keys, never ranged over or matched by prefix; the first hit is returned", 6)
	// injector
	ga := inj.fn(pkgInjector, "getAnnotation")
	ann, mainKey, ctr := ga.Params[0], ga.Params[1], ga.Params[2]
	mf := &mergeFn{m: inj}
	var cands []ssa.Value
	for _, b := range ga.Blocks {
		for _, in := range b.Instrs {
			if sl, ok := in.(*ssa.Slice); ok {
				if el := mf.appendedElems(sl); len(el) >= 2 {
					cands = el
				}
			}
		}
	}
	shape := func(v ssa.Value) string {
		// returns a normalised description: K, K+"const", K+"const"+C
		if v == ssa.Value(mainKey) {
			return "K"
		}
		bo, ok := v.(*ssa.BinOp)
		if !ok || bo.Op != token.ADD {
			return "?"
		}
		if bo.X == ssa.Value(mainKey) {
			if s, ok := constString(bo.Y); ok {
				return "K+" + s
			}
		}
		if in, ok := bo.X.(*ssa.BinOp); ok && in.Op == token.ADD && in.X == ssa.Value(mainKey) && bo.Y == ssa.Value(ctr) {
			if s, ok := constString(in.Y); ok {
				return "K+" + s + "+C"
			}
		}
		return "?"
	}
	unrolled := false
	if len(cands) == 0 {
		// no candidate list: the lookups written out one after the other, each on the miss path of the one before
		var lks []*ssa.Lookup
		for _, r := range *ann.Referrers() {
			if lk, ok := r.(*ssa.Lookup); ok && lk.X == ssa.Value(ann) {
				lks = append(lks, lk)
			}
		}
		sort.Slice(lks, func(i, j int) bool { return domInstr(lks[i], lks[j]) })
		unrolled = len(lks) > 0
		for i, lk := range lks {
			if i > 0 {
				// on the miss branch of the previous lookup
				miss := false
				for _, cd := range controls(lk.Block()) {
					cd = normCond(cd)
					if ex, ok := cd.V.(*ssa.Extract); ok && ex.Index == 1 && ex.Tuple == ssa.Value(lks[i-1]) && !cd.Pol {
						miss = true
					}
				}
				if !miss {
					unrolled = false
				}
			}
			cands = append(cands, lk.Index)
		}
		if !unrolled {
			cands = nil
		}
	}
	var shapes []string
	for _, cd := range cands {
		shapes = append(shapes, shape(cd))
	}
	want := []string{"K+/container.+C", "K+/pod", "K"}
	c.addAt("J1", "injector/candidates", posIn(c, inj, ga.Pos()), boolStatus(strings.Join(shapes, " | ") == strings.Join(want, " | ")), "the injector looks up container-scoped, then pod-scoped, then the bare key",
		fmt.Sprintf("candidate keys are [%s], want [%s]: a less specific annotation overrides the one naming this container, or another container's annotation matches", strings.Join(shapes, " | "), strings.Join(want, " | ")))
	// the map is only indexed
	onlyIdx := func(m *Module, f *ssa.Function, p *ssa.Parameter) string {
		for _, r := range *p.Referrers() {
			switch x := r.(type) {
			case *ssa.Lookup:
				if x.X != ssa.Value(p) {
					return "the map is used as a key"
				}
			case *ssa.DebugRef:
			case *ssa.Call:
				// passing it on to a helper of the same package is followed there
				if g := m.callee(x.Common()); g != nil && g.Pkg == f.Pkg {
					continue
				}
				return "the annotation map is passed to " + m.calleeName(x.Common())
			default:
				return fmt.Sprintf("the annotation map is used by %T (ranged over or matched otherwise than by exact key)", r)
			}
		}
		return ""
	}
	bad := onlyIdx(inj, ga, ann)
	// lookups use the loop element of the candidate list, in order, first hit returns
	for _, r := range *ann.Referrers() {
		if lk, ok := r.(*ssa.Lookup); ok {
			coll, _ := rangeOf(lk.Index)
			if coll == nil && !unrolled {
				bad = "a lookup key is not an element of the candidate list"
			}
			// hit returns
			hit := false
			for _, rr := range *lk.Referrers() {
				if ex, ok := rr.(*ssa.Extract); ok && ex.Index == 1 {
					for _, r3 := range *ex.Referrers() {
						if iff, ok := r3.(*ssa.If); ok && isExit(iff.Block().Succs[0]) {
							hit = true
						}
					}
				}
			}
			if !hit {
				bad = "a hit does not return at once (a later, less specific key overrides it)"
			}
		}
	}
	c.addAt("J1", "injector/exact", posIn(c, inj, ga.Pos()), boolStatus(bad == ""), "the injector only indexes the annotations with exact candidate keys, first hit wins", bad)
	// callers pass the container's own name
	n := 0
	for _, f := range inj.funcsInPkg(pkgInjector) {
		for _, ci := range inj.callsTo(f, ga) {
			// f is parseX(ctr string, annotations): its callers pass ctr.Name
			if ci.Common().Args[2] != ssa.Value(f.Params[0]) {
				c.addAt("J1", "injector/name/"+f.Name(), posIn(c, inj, ci.Pos()), Violated, f.Name()+" looks up under the name it was given", "the container name passed to getAnnotation is not the function's own parameter")
				continue
			}
			for _, cs := range inj.callersOf(f) {
				if cs.Caller.Pkg == nil || cs.Caller.Pkg.Pkg.Path() != pkgInjector {
					continue
				}
				n++
				a := inj.ap(cs.Instr.Common().Args[0])
				pn := ptrNamed(a.Root.Type())
				okN := pn != nil && pn.Obj().Name() == "Container" && a.PathString() == "Name"
				aa := inj.ap(cs.Instr.Common().Args[1])
				pa := ptrNamed(aa.Root.Type())
				okA := pa != nil && pa.Obj().Name() == "PodSandbox" && aa.PathString() == "Annotations"
				c.addAt("J1", "injector/name/"+cs.Caller.Name(), posIn(c, inj, cs.Instr.Pos()), boolStatus(okN && okA), cs.Caller.Name()+" looks up the pod's annotations under the container's own name",
					"the lookup does not use (container.Name, pod.Annotations): annotations addressed to another container (or the pod's name) are applied")
			}
		}
	}
	// adjuster
	pu := adj.fn(pkgAdjuster, "parseUlimits")
	cname, annA := pu.Params[1], pu.Params[2]
	badA := onlyIdx(adj, pu, annA)
	nl := 0
	for _, r := range *annA.Referrers() {
		if lk, ok := r.(*ssa.Lookup); ok {
			nl++
			bo, ok := lk.Index.(*ssa.BinOp)
			okK := false
			if ok && bo.Op == token.ADD && bo.Y == ssa.Value(cname) {
				if s, ok := constString(bo.X); ok && strings.HasSuffix(s, "/container.") && !strings.Contains(strings.TrimSuffix(s, "/container."), "/") {
					okK = true
				}
			}
			if !okK {
				badA = "the key looked up is not <key>/container.<container name>"
			}
		}
	}
	if nl != 1 && badA == "" {
		badA = fmt.Sprintf("%d lookups, want exactly 1 (container-scoped only)", nl)
	}
	c.addAt("J1", "adjuster/exact", posIn(c, adj, pu.Pos()), boolStatus(badA == ""), "the adjuster only looks up the container-scoped key, exactly", badA)
	for _, cs := range adj.callersOf(pu) {
		a := adj.ap(cs.Instr.Common().Args[1])
		pn := ptrNamed(a.Root.Type())
		okN := pn != nil && pn.Obj().Name() == "Container" && a.PathString() == "Name"
		aa := adj.ap(cs.Instr.Common().Args[2])
		pa := ptrNamed(aa.Root.Type())
		okA := pa != nil && pa.Obj().Name() == "PodSandbox" && aa.PathString() == "Annotations"
		c.addAt("J1", "adjuster/name/"+cs.Caller.Name(), posIn(c, adj, cs.Instr.Pos()), boolStatus(okN && okA), cs.Caller.Name()+" looks up the pod's annotations under the container's own name", "the lookup does not use (container.Name, pod.Annotations)")
	}
}

func boolStatus(ok bool) Status {
	if ok {
		return Discharged
	}
	return Violated
}

func ruleJ2(c *Ctx, m *Module, pkg, tag string) {
	c.rule("J2", "no partial adjustment: in CreateContainer and its helpers every return whose error is not nil returns nil in every other position, and every error returned by a helper of the plugin is returned by its caller", 10)
	for _, f := range m.funcsInPkg(pkg) {
		if f.Synthetic != "" || f.Name() == "main" || f.Name() == "init" {
			continue
		}
		res := f.Signature.Results()
		n := res.Len()
		if n == 0 || !isErrorType(res.At(n-1).Type()) {
			continue
		}
		ord := 0
		for _, r := range returnsOf(f) {
			mayFail := false
			for _, v := range returnValues(r, n-1) {
				if !isNilConst(v) {
					mayFail = true
				}
			}
			if !mayFail || n == 1 {
				continue
			}
			ord++
			bad := ""
			for i := 0; i < n-1; i++ {
				for _, v := range returnValues(r, i) {
					if !isNilConst(v) && !isZeroConst(v) {
						bad = fmt.Sprintf("result #%d is %s next to a non-nil error: a partially built adjustment is handed back", i, m.ap(v))
					}
				}
			}
			c.addAt("J2", fmt.Sprintf("%s/%s/fail#%d", tag, f.Name(), ord), posIn(c, m, r.Pos()), boolStatus(bad == ""), f.Name()+" returns nothing but the error when it fails", bad)
		}
		// helper errors propagate
		seen := map[string]int{}
		for _, ci := range calls(f) {
			call, ok := ci.(*ssa.Call)
			if !ok {
				continue
			}
			g := m.callee(call.Common())
			if g == nil && !call.Call.IsInvoke() && errResult(call) != nil {
				// a helper called through a function value (e.g. the elements of a list of injectors)
				if _, isFn := call.Call.Value.Type().Underlying().(*types.Signature); isFn {
					seen["(func value)"]++
					st, d := errPropagated(m, f, call)
					c.addAt("J2", fmt.Sprintf("%s/%s/err/func-value#%d", tag, f.Name(), seen["(func value)"]), posIn(c, m, call.Pos()), boolStatus(st == "ok"), fmt.Sprintf("%s returns the error of the helper it calls through a function value", f.Name()), d)
				}
				continue
			}
			if g == nil || g.Pkg == nil || g.Pkg.Pkg.Path() != pkg || errResult(call) == nil {
				if g != nil && errResult(call) != nil && strings.HasSuffix(g.String(), "yaml.Unmarshal") {
					// decoding errors must also abort
				} else {
					continue
				}
			}
			seen[g.Name()]++
			st, d := errPropagated(m, f, call)
			c.addAt("J2", fmt.Sprintf("%s/%s/err/%s#%d", tag, f.Name(), g.Name(), seen[g.Name()]), posIn(c, m, call.Pos()), boolStatus(st == "ok"), fmt.Sprintf("%s returns the error of %s", f.Name(), g.Name()), d)
		}
	}
}

func ruleJ3(c *Ctx, adj *Module) {
	c.rule("J3", "validation dominates emission: AddRlimit is called only on the branch where hard < soft is false, with the fields of that same entry; the type stored is the prefix plus the name that passed the lookup in the table of valid names, that name being the upper-cased, prefix-trimmed input", 2)
	au := adj.fn(pkgAdjuster, "adjustUlimits")
	var add *ssa.Call
	for _, ci := range calls(au) {
		if g := adj.callee(ci.Common()); g != nil && g.Name() == "AddRlimit" {
			add, _ = ci.(*ssa.Call)
		}
	}
	bad := "adjustUlimits never emits an rlimit"
	if add != nil {
		bad = "the emission is not dominated by the hard >= soft branch: an rlimit with hard < soft reaches the runtime"
		ta, ha, sa := adj.ap(add.Call.Args[1]), adj.ap(add.Call.Args[2]), adj.ap(add.Call.Args[3])
		for _, cd := range controls(add.Block()) {
			cd = normCond(cd)
			bo, ok := cd.V.(*ssa.BinOp)
			if !ok {
				continue
			}
			x, y := adj.ap(bo.X), adj.ap(bo.Y)
			isHS := x.PathString() == ha.PathString() && y.PathString() == sa.PathString() && x.Root == ha.Root && y.Root == sa.Root
			isSH := x.PathString() == sa.PathString() && y.PathString() == ha.PathString() && x.Root == sa.Root && y.Root == ha.Root
			switch {
			case isHS && bo.Op == token.LSS && !cd.Pol, isHS && bo.Op == token.GEQ && cd.Pol, isSH && bo.Op == token.GTR && !cd.Pol, isSH && bo.Op == token.LEQ && cd.Pol:
				bad = ""
				// the comparison is made on the values that are emitted (same type: no signed/unsigned reinterpretation in between)
				if !types.Identical(bo.X.Type(), add.Call.Args[2].Type()) || !types.Identical(bo.Y.Type(), add.Call.Args[3].Type()) {
					bad = fmt.Sprintf("hard and soft are compared as %s but emitted as %s: a negative value passes the check and is emitted as a huge limit (soft above hard)", bo.X.Type(), add.Call.Args[2].Type())
				}
			}
		}
		// every entry that passes that test is emitted: nothing else in the loop decides about it
		if bad == "" {
			for _, cd := range controls(add.Block()) {
				if cd.If == nil || !canReach(add.Block(), cd.If.Block()) {
					continue // outside the loop
				}
				n := normCond(cd)
				if bo, ok := n.V.(*ssa.BinOp); ok {
					x, y := adj.ap(bo.X), adj.ap(bo.Y)
					hs := (x.PathString() == ha.PathString() && y.PathString() == sa.PathString()) || (x.PathString() == sa.PathString() && y.PathString() == ha.PathString())
					if hs {
						continue
					}
					if _, isLen := isBuiltinCall(bo.Y, "len"); isLen && bo.Op == token.LSS {
						continue // the loop's own i < len(xs)
					}
				}
				if ex, ok := n.V.(*ssa.Extract); ok {
					if _, isNext := ex.Tuple.(*ssa.Next); isNext {
						continue
					}
				}
				bad = "the emission additionally depends on " + n.V.String() + ": entries the annotation describes (for example a limit of 0, which is a real setting) are dropped while the request succeeds"
			}
		}
		if bad == "" {
			if !(strings.HasSuffix(ta.PathString(), "Type") && strings.HasSuffix(ha.PathString(), "Hard") && strings.HasSuffix(sa.PathString(), "Soft") && ta.Root == ha.Root && ha.Root == sa.Root) {
				bad = "AddRlimit is not called with (Type, Hard, Soft) of one entry"
			}
			// the failing branch returns an error and no adjustment (J2 covers the shape)
		}
	}
	pos := au.Pos()
	if add != nil {
		pos = add.Pos()
	}
	c.addAt("J3", "adjuster/hard-soft", posIn(c, adj, pos), boolStatus(bad == ""), "an rlimit is emitted only when hard >= soft", bad)
	// type normalisation
	pu := adj.fn(pkgAdjuster, "parseUlimits")
	bad = "parseUlimits does not store a normalised type"
	for _, b := range pu.Blocks {
		for _, in := range b.Instrs {
			st, ok := in.(*ssa.Store)
			if !ok {
				continue
			}
			a := adj.ap(st.Addr)
			if len(a.Path) == 0 || a.Path[len(a.Path)-1] != "Type" {
				continue
			}
			bo, ok := st.Val.(*ssa.BinOp)
			if !ok || bo.Op != token.ADD {
				bad = "the stored type is not prefix + name"
				continue
			}
			pfx, okP := constString(bo.X)
			typ := bo.Y
			// typ = TrimPrefix(ToUpper(u.Type), prefix)
			isNorm := func(v ssa.Value) bool {
				if tp, ok := v.(*ssa.Call); ok {
					if g := adj.callee(tp.Common()); g != nil && g.String() == "strings.TrimPrefix" {
						p2, _ := constString(tp.Call.Args[1])
						if up, ok := tp.Call.Args[0].(*ssa.Call); ok {
							if h := adj.callee(up.Common()); h != nil && h.String() == "strings.ToUpper" && p2 == pfx {
								return true
							}
						}
					}
				}
				return false
			}
			// v is the ok of a lookup of name in the table of valid names
			isValidOK := func(v, name ssa.Value) bool {
				// valid.has(name): a membership method of a set type
				if mv, k, ok := adj.mapHasCall(v); ok && k == name {
					if u, ok := mv.(*ssa.UnOp); ok {
						if g, ok := u.X.(*ssa.Global); ok && g.Name() == "valid" {
							return true
						}
					}
				}
				if ex, ok := v.(*ssa.Extract); ok && ex.Index == 1 {
					if lk, ok := ex.Tuple.(*ssa.Lookup); ok && lk.Index == name {
						if u, ok := lk.X.(*ssa.UnOp); ok {
							if g, ok := u.X.(*ssa.Global); ok && g.Name() == "valid" {
								return true
							}
						}
					}
				}
				return false
			}
			okNorm := isNorm(typ)
			okValid := false
			for _, cd := range controls(b) {
				cd = normCond(cd)
				if cd.Pol && isValidOK(cd.V, typ) {
					okValid = true
				}
			}
			// both delegated to a helper returning (normalised name, found in the table)
			if ex, ok := typ.(*ssa.Extract); ok && ex.Index == 0 && !okNorm {
				if hc, ok := ex.Tuple.(*ssa.Call); ok {
					if h := adj.callee(hc.Common()); h != nil && len(h.Blocks) > 0 && h.Pkg != nil && h.Pkg.Pkg.Path() == pkgAdjuster && h.Signature.Results().Len() == 2 {
						hn, hv := true, true
						for _, r := range returnsOf(h) {
							for _, v := range returnValues(r, 0) {
								if !isNorm(v) {
									hn = false
								}
								for _, v1 := range returnValues(r, 1) {
									if !isValidOK(v1, v) {
										hv = false
									}
								}
							}
						}
						okNorm = hn
						if hv {
							for _, cd := range controls(b) {
								cd = normCond(cd)
								if e1, ok := cd.V.(*ssa.Extract); ok && e1.Index == 1 && e1.Tuple == ssa.Value(hc) && cd.Pol {
									okValid = true
								}
							}
						}
					}
				}
			}
			switch {
			case !okP || pfx == "":
				bad = "the stored type does not start with the constant prefix"
			case !okNorm:
				bad = "the name is not the upper-cased, prefix-trimmed input"
			case !okValid:
				bad = "the type is stored without having been found in the table of valid names: unknown rlimit types reach the runtime"
			default:
				bad = ""
			}
		}
	}
	c.addAt("J3", "adjuster/type", posIn(c, adj, pu.Pos()), boolStatus(bad == ""), "only known rlimit names, normalised and re-prefixed, are emitted", bad)
}

func ruleJ4(c *Ctx, inj *Module) {
	c.rule("J4", "conversion completeness: device.toNRI and mount.toNRI fill the NRI object from every field of the annotation struct, each into the field of the same name; optional constructors get accepted argument types", 11)
	for _, tn := range []string{"device", "mount"} {
		f := inj.method(pkgInjector, tn, "toNRI")
		st := inj.structOf(pkgInjector, tn)
		got := map[string]string{}
		for _, fl := range inj.fieldFlows(f) {
			if fl.Src.Root != ssa.Value(f.Params[0]) {
				continue
			}
			got[dropIdx(fl.Src.PathString())] = dropIdx(fl.Path)
		}
		for i := 0; i < st.NumFields(); i++ {
			fn := fname(st.Field(i))
			dst, ok := got[fn]
			bad := ""
			if !ok {
				bad = "the field is not converted: what the annotation says is dropped"
			} else if normName(dst) != normName(fn) {
				bad = fmt.Sprintf("the field is stored into %s: fields are crossed", dst)
			}
			c.addAt("J4", tn+"."+fn, posIn(c, inj, f.Pos()), boolStatus(bad == ""), fmt.Sprintf("%s.%s is converted into the NRI field of the same name", tn, fn), bad)
		}
	}
	// constructor argument types in the plugin
	ctors := map[*ssa.Function][]types.Type{}
	for _, n := range optionalCtors {
		if f := inj.fnOpt(pkgAPI, n); f != nil {
			ctors[f] = ctorCases(inj, f)
		}
	}
	k := 0
	for _, f := range inj.funcsInPkg(pkgInjector) {
		for _, ci := range calls(f) {
			g := inj.callee(ci.Common())
			cases, ok := ctors[g]
			if !ok {
				continue
			}
			k++
			mi, ok := ci.Common().Args[0].(*ssa.MakeInterface)
			okT := false
			if ok {
				for _, ct := range cases {
					if types.Identical(ct, mi.X.Type()) {
						okT = true
					}
				}
			}
			c.addAt("J4", fmt.Sprintf("ctor/%s/%s#%d", f.Name(), g.Name(), k), posIn(c, inj, ci.Pos()), boolStatus(okT), fmt.Sprintf("%s in %s gets an argument type it accepts", g.Name(), f.Name()), "the argument type is not a case of the constructor's type switch: the value is silently dropped")
		}
	}
}

// ruleJ5: the sample plugins keep no state between requests.
func ruleJ5(c *Ctx, m *Module, pkg, tag string) {
	c.rule("J5", "no state between requests: apart from main and the package initialiser, no function of the sample plugins assigns a package-level variable or updates a package-level map — what a container gets depends on its own request only, never on the containers handled before", 2)
	bad := ""
	var pos token.Pos
	for _, f := range m.funcsInPkg(pkg) {
		if f.Name() == "main" || f.Name() == "init" || f.Synthetic != "" {
			continue
		}
		root := f
		for root.Parent() != nil {
			root = root.Parent()
		}
		if root.Name() == "main" || root.Name() == "init" {
			continue
		}
		for _, b := range f.Blocks {
			for _, in := range b.Instrs {
				switch x := in.(type) {
				case *ssa.Store:
					if g, ok := m.ap(x.Addr).Root.(*ssa.Global); ok {
						bad, pos = fmt.Sprintf("%s assigns the package-level variable %s", funcKey(f), g.Name()), x.Pos()
					}
				case *ssa.MapUpdate:
					if g, ok := m.ap(x.Map).Root.(*ssa.Global); ok {
						bad, pos = fmt.Sprintf("%s updates the package-level map %s", funcKey(f), g.Name()), x.Pos()
					}
				}
			}
		}
	}
	c.addAt("J5", tag+"/stateless", posIn(c, m, pos), boolStatus(bad == ""), "the plugin keeps no package-level state across requests",
		bad+suffixIf(bad != "", ": a later container's adjustment then depends on an earlier container's request (for example lookup keys cached for the first container are used for all)"))
}
