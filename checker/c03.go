package main

import (
	"fmt"
	"go/token"
	"go/types"
	"sort"
	"strings"

	"golang.org/x/tools/go/ssa"
)

func init() {
	register("C03", &propInfo{
		run: func(c *Ctx) {
			ma := newMergeAnalysis(c)
			ma.collectPairs()
			ma.ruleR10(c)
			ma.ruleR7f(c)
			ma.ruleR11(c, "abcd")
			ma.ruleR12(c)
			ma.ruleR13(c)
			ma.ruleR21(c)
			ma.ruleR22(c)
			ma.ruleR14n(c)
			ma.ruleR14m(c)
			ma.ruleR8(c)
			genRules(c, "G1", "G2", "G3", "G4")
			ruleG6(c)
		},
		explanation: "The behaviour is an equality of OCI specs and is not decided.  Decided is the bookkeeping shape that equality needs: every accepted write of a plugin value into the request view has a twin write of the same item and value into the reply accumulator under the same guard (and vice versa); for every removable collection kind the reply drops entries whose key is removal-marked, the view drops marked and re-set keys before the new entries are appended, and removals that are not re-set are re-emitted into the reply as markers; list-valued items only ever grow by append(existing, new...) in plugin order; every field of the adjustment messages is consumed by the merge code; the response getters return exactly the accumulators; and the generator that applies the reply consumes every adjustment field and interprets removals/sets order-independently. Also decided: plugin order is kept (no sorting or reversing in the merge functions or the generator's adjust functions, the mount sort aside); accumulated maps are created only when nil; lookups in the local removed/re-set key sets use the kind of key the set was filled with; a claim depends on presence only (the value of an optional wrapper is never tested). The mount comparator orders by depth, then destination.",
		notDecided: []string{
			"equality of the resulting spec",
			"value semantics inside the runtime-tools generator (e.g. replacement of an existing hugepage size)",
		},
	})
}

// valueSourceKey: a printable identity of what a write stores, for mirror comparison.
func (mf *mergeFn) valueSourceKey(w *mwrite) string {
	m := mf.m
	strip := func(a AP) string {
		// ToOCI conversions and optional re-boxing do not change the item's value
		return a.RootString() + "." + a.PathString()
	}
	// an element taken from a local collection is identified by what was inserted there (followed
	// through collections built from collections: ociEnv from add from the plugin's list)
	var resolve func(e ssa.Value, depth int) []string
	resolve = func(e ssa.Value, depth int) []string {
		if coll, _ := rangeOf(e); coll != nil && depth < 4 {
			if ins, local := mf.insertions(coll); local && len(ins) > 0 {
				var s []string
				for _, i := range ins {
					if i.elem != nil {
						s = append(s, resolve(i.elem, depth+1)...)
					}
				}
				return s
			}
		}
		return []string{strip(m.ap(e))}
	}
	switch {
	case w.kind == "mapupdate":
		return "map[" + strip(m.ap(w.key)) + "]=" + strip(m.ap(w.val))
	case w.isAppnd && len(w.elems) > 0:
		var s []string
		for _, e := range w.elems {
			s = append(s, resolve(e, 0)...)
		}
		return "append:" + strings.Join(s, ",")
	case w.isAppnd:
		if ap, ok := isBuiltinCall(w.val, "append"); ok && len(ap.Call.Args) > 1 {
			// a whole collection: identify it by its insertions' elements
			ins, local := mf.insertions(ap.Call.Args[1])
			if local && len(ins) > 0 {
				var s []string
				for _, i := range ins {
					if i.elem != nil {
						s = append(s, resolve(i.elem, 1)...)
					}
				}
				return "append:" + strings.Join(s, ",")
			}
			return "append:" + strip(m.ap(ap.Call.Args[1])) + ".[]"
		}
	}
	if al, ok := w.val.(*ssa.Alloc); ok {
		return fmt.Sprintf("alloc@%p", al)
	}
	return strip(m.ap(w.val))
}

// cdiItem: CDI devices are not part of the request view (stated in the code and in C04).
func viewExempt(item string) bool { return item == "CDIDevices" }

func (ma *mergeAnalysis) ruleR10(c *Ctx) {
	c.rule("R10", "mirror: in each merge function every write of a plugin value to the request view has a twin write of the same item with the same value source to the reply accumulator under the same guard, and vice versa (CDI devices are by design not part of the view)", 27)
	for _, mf := range ma.fns {
		type side struct {
			ws []*mwrite
		}
		items := map[string]map[string]*side{}
		for _, w := range mf.writes {
			if w.space != "reply" && w.space != "view" {
				continue
			}
			cls := mf.classify(w)
			if cls != "value" {
				// alias write: view.X = load(reply.X) (or the other way round)
				if cls == "internal" && w.kind == "store" {
					src := mf.m.ap(w.val)
					sp, it := mf.spaceOf(src)
					if (sp == "reply" || sp == "view") && sp != w.space && it == w.item {
						if items[w.item] == nil {
							items[w.item] = map[string]*side{}
						}
						if items[w.item][w.space] == nil {
							items[w.item][w.space] = &side{}
						}
						items[w.item][w.space].ws = append(items[w.item][w.space].ws, w)
					}
				}
				continue
			}
			if items[w.item] == nil {
				items[w.item] = map[string]*side{}
			}
			if items[w.item][w.space] == nil {
				items[w.item][w.space] = &side{}
			}
			items[w.item][w.space].ws = append(items[w.item][w.space].ws, w)
		}
		for _, it := range sortedKeys(items) {
			if viewExempt(it) {
				continue
			}
			sides := items[it]
			key := mf.fn.Name() + "/" + it
			what := fmt.Sprintf("%s: item %s is written to reply and view alike", mf.fn.Name(), it)
			r, v := sides["reply"], sides["view"]
			var p token.Pos
			for _, s := range sides {
				p = s.ws[0].instr.Pos()
			}
			if r == nil || v == nil {
				missing := "the request view shown to later plugins"
				if r == nil {
					missing = "the reply returned to the runtime"
				}
				c.violate("R10", key, p, what, "the item is written to one side only; "+missing+" does not get the accepted value")
				continue
			}
			// value sources agree (aliases agree by construction)
			srcs := func(s *side) []string {
				set := map[string]bool{}
				for _, w := range s.ws {
					if mf.classify(w) == "value" {
						set[mf.valueSourceKey(w)] = true
					}
				}
				return sortedKeys(set)
			}
			rs, vs := srcs(r), srcs(v)
			okv := true
			if len(rs) > 0 && len(vs) > 0 && strings.Join(rs, ";") != strings.Join(vs, ";") {
				okv = false
			}
			// guards agree: same innermost claim (or both claim-all)
			guards := func(s *side) string {
				set := map[string]bool{}
				for _, w := range s.ws {
					if g := innermostGuard(mf.claimGuards(w.block())); g != nil {
						set[fmt.Sprintf("%s@%p", g.name(), g.call)] = true
					} else {
						set["claim-all"] = true
					}
				}
				return strings.Join(sortedKeys(set), ";")
			}
			gr, gv := guards(r), guards(v)
			okg := gr == gv || hookItem(it) || strings.Contains(gr, "claim-all") || strings.Contains(gv, "claim-all")
			detail := ""
			if !okv {
				detail = fmt.Sprintf("reply stores %v but view stores %v: later plugins see a different value than the runtime gets", rs, vs)
			} else if !okg {
				detail = "the two writes are guarded by different claims"
			}
			c.ok("R10", key, p, okv && okg, what, detail)
		}
	}
}

// filterInfo describes a filter rebuild `X.F = S` where S collects elements of the old X.F.
type filterInfo struct {
	w       *mwrite
	absent  []int // polarities of partitions whose membership excludes an element
	fromOld bool
}

func (mf *mergeFn) filterOf(w *mwrite) *filterInfo {
	if w.kind != "store" || w.isAppnd || mf.classify(w) != "internal" {
		return nil
	}
	ins, local := mf.insertions(w.val)
	if !local || len(ins) == 0 {
		return nil
	}
	fi := &filterInfo{w: w, fromOld: true}
	for _, i := range ins {
		if i.elem == nil {
			return nil
		}
		coll, _ := rangeOf(i.elem)
		if coll == nil {
			return nil
		}
		a := mf.m.ap(coll)
		if a.Root != w.target.Root || a.PathString() != w.target.PathString() {
			fi.fromOld = false
		}
		for _, cd := range controls(i.site.Block()) {
			cd = normCond(cd)
			ex, ok := cd.V.(*ssa.Extract)
			if !ok || ex.Index != 1 {
				continue
			}
			lk, ok := ex.Tuple.(*ssa.Lookup)
			if !ok || cd.Pol {
				continue
			}
			if p, ok := mf.partition(lk.X); ok {
				fi.absent = append(fi.absent, p)
			}
		}
	}
	return fi
}

func hasPol(xs []int, p int) bool {
	for _, x := range xs {
		if x == p {
			return true
		}
	}
	return false
}

// ruleR11 checks the removal features; parts selects (a) reply-drop, (b) view-drop, (c) lone-removal.
func (ma *mergeAnalysis) ruleR11(c *Ctx, parts string) {
	c.rule("R11", "removal features per removable collection kind: (a/d) reply entries whose key is removal-marked are dropped whether or not the key is set again; (b) view entries whose key is marked or re-set are dropped before the new ones are appended; (c) removals that are not re-set are re-emitted into the reply as markers", 4)
	for _, mf := range ma.fns {
		hasMarked := false
		for _, ci := range calls(mf.fn) {
			if call, ok := ci.(*ssa.Call); ok {
				if _, ok := mf.isMarkedTest(call); ok {
					hasMarked = true
				}
			}
		}
		if !hasMarked {
			continue
		}
		// the removable item of this function: the item of its marker / value writes
		item := ""
		for _, w := range mf.writes {
			if (w.space == "reply" || w.space == "view") && mf.classify(w) == "value" {
				item = w.item
			}
		}
		if item == "" {
			c.undecided("R11", mf.fn.Name(), mf.fn.Pos(), "removal features of "+mf.fn.Name(), "function interprets removal markers but writes no plugin value")
			continue
		}
		isMap := false
		var firstValue = map[string]ssa.Instruction{}
		for _, w := range mf.writes {
			if w.item == item && mf.classify(w) == "value" {
				if w.kind == "mapupdate" {
					isMap = true
				}
				if firstValue[w.space] == nil || domInstr(w.instr, firstValue[w.space]) {
					firstValue[w.space] = w.instr
				}
			}
		}
		// drop of marked keys in a space
		drop := func(space string, needUnmarked bool) (bool, string, token.Pos) {
			for _, w := range mf.writes {
				if w.space != space || w.item != item {
					continue
				}
				if isMap && w.kind == "delete" {
					// delete(X.F, k) with k removal-marked, not conditional on the unmarked part
					if mf.keyMarked(w.key, w.block()) && !mf.controlledByUnmarked(w.block()) {
						if fv := firstValue[space]; fv != nil && instrCanReach(fv, w.instr) && !domInstr(w.instr, fv) {
							return false, "the delete can run after the new value was written", w.instr.Pos()
						}
						return true, "", w.instr.Pos()
					}
				}
				if !isMap {
					if fi := mf.filterOf(w); fi != nil && fi.fromOld {
						if hasPol(fi.absent, 1) && (!needUnmarked || hasPol(fi.absent, -1)) {
							if fv := firstValue[space]; fv != nil && !domInstr(w.instr, fv) {
								return false, "the filter does not precede the append of the new entries", w.instr.Pos()
							}
							return true, "", w.instr.Pos()
						}
					}
				}
			}
			return false, "", mf.fn.Pos()
		}
		if strings.Contains(parts, "a") {
			okd, why, p := drop("reply", false)
			if why == "" {
				why = "no filter/delete removes reply entries whose key is removal-marked independent of re-setting: the earlier plugin's value survives next to (or instead of) the removal"
			}
			c.ok("R11", mf.fn.Name()+"/reply-drop", p, okd, fmt.Sprintf("%s drops removal-marked keys from the reply %s", mf.fn.Name(), item), why)
		}
		if strings.Contains(parts, "b") {
			okd, why, p := drop("view", !isMap)
			if why == "" {
				why = "no filter/delete removes view entries whose key is removal-marked (and, for lists, re-set) before the new entries are added: later plugins still see the removed item (or see it twice)"
			}
			c.ok("R11", mf.fn.Name()+"/view-drop", p, okd, fmt.Sprintf("%s drops removed and re-set keys from the view %s", mf.fn.Name(), item), why)
		}
		if strings.Contains(parts, "c") {
			found := false
			var p token.Pos = mf.fn.Pos()
			for _, w := range mf.writes {
				if w.space == "reply" && w.item == item && mf.classify(w) == "marker" {
					if !mf.controlledByUnmarked(w.block()) && !mf.controlledByAccumulated(w.block()) {
						found = true
						p = w.instr.Pos()
					}
				}
			}
			c.ok("R11", mf.fn.Name()+"/lone-removal", p, found, fmt.Sprintf("%s re-emits removals that are not re-set into the reply %s", mf.fn.Name(), item),
				"no marker write into the reply that is independent of the key being set again and of what earlier plugins contributed: a lone removal of an original item never reaches the runtime")
		}
	}
}

// keyMarked: key value k at block b is known to be removal-marked.
func (mf *mergeFn) keyMarked(k ssa.Value, b *ssa.BasicBlock) bool {
	if mf.elemMarked(k, b) == 1 {
		return true
	}
	for _, cd := range controls(b) {
		cd = normCond(cd)
		if ex, ok := cd.V.(*ssa.Extract); ok && ex.Index == 1 && cd.Pol {
			if lk, ok := ex.Tuple.(*ssa.Lookup); ok && mf.m.valEq(lk.Index, k) {
				if p, ok := mf.partition(lk.X); ok && p == 1 {
					return true
				}
			}
		}
	}
	return false
}

// controlledByUnmarked: block b only runs for keys that are (also) in the
// unmarked part of the plugin's adjustment.
func (mf *mergeFn) controlledByUnmarked(b *ssa.BasicBlock) bool {
	for _, cd := range mf.itemControls(b) {
		cd = normCond(cd)
		var coll ssa.Value
		if ex, ok := cd.V.(*ssa.Extract); ok {
			switch t := ex.Tuple.(type) {
			case *ssa.Next:
				if r, ok := t.Iter.(*ssa.Range); ok {
					coll = r.X
				}
			case *ssa.Lookup:
				if cd.Pol && ex.Index == 1 {
					coll = t.X
				}
			}
		}
		if coll == nil {
			// slice range: i < len(coll)
			if bo, ok := cd.V.(*ssa.BinOp); ok && bo.Op == token.LSS && cd.Pol {
				if ln, ok := isBuiltinCall(bo.Y, "len"); ok {
					coll = ln.Call.Args[0]
				}
			}
		}
		if coll == nil {
			continue
		}
		if p, ok := mf.partition(coll); ok {
			if p == -1 {
				return true
			}
			continue
		}
		if mf.paramPartition(coll, cd.If.Block()) == -1 {
			return true
		}
	}
	return false
}

func (ma *mergeAnalysis) ruleR12(c *Ctx) {
	c.rule("R12", "append-only, in plugin order: list-valued items of the reply and the view only grow by append(existing, new...) with the existing list as first operand; the only whole-list stores are the removal filters and the command line (replaced as a whole by design)", 20)
	ord := map[string]int{}
	for _, mf := range ma.fns {
		for _, w := range mf.writes {
			if (w.space != "reply" && w.space != "view") || w.kind != "store" {
				continue
			}
			if _, isSlice := w.val.Type().Underlying().(*types.Slice); !isSlice {
				continue
			}
			cls := mf.classify(w)
			if cls != "value" && cls != "marker" {
				continue
			}
			if w.item == "Args" {
				continue
			}
			base := fmt.Sprintf("%s/%s/%s", mf.fn.Name(), w.space, w.item)
			ord[base]++
			key := base
			if ord[base] > 1 {
				key = fmt.Sprintf("%s#%d", base, ord[base])
			}
			okA := false
			if w.isAppnd {
				ba := mf.m.ap(w.appBase)
				okA = ba.Root == w.target.Root && ba.PathString() == w.target.PathString()
			}
			c.ok("R12", key, w.instr.Pos(), okA, fmt.Sprintf("%s extends %s %s by append(existing, new...)", mf.fn.Name(), w.space, w.item),
				"the list is replaced or the new entries are not appended after the existing ones: earlier plugins' entries are lost or plugin order is not kept")
		}
	}
}

// ruleR13: every field of the adjustment/update messages is consumed.
func (ma *mergeAnalysis) ruleR13(c *Ctx) {
	m := c.M
	c.rule("R13", "exhaustive over the message: every exported field of ContainerAdjustment, LinuxContainerAdjustment, LinuxResources, LinuxMemory, LinuxCPU and Hooks is read from the plugin's response by the adjustment merge, and every field of ContainerUpdate, LinuxContainerUpdate, LinuxResources, LinuxMemory, LinuxCPU by the update merge (frozen exception: LinuxResources.Devices, device-cgroup rules are not adjustable through NRI)", 50)
	read := map[string]map[string]bool{"adjust": {}, "update": {}}
	for _, mf := range ma.fns {
		fam := "adjust"
		switch mf.fn.Name() {
		case "update", "updateResources", "getContainerUpdate":
			fam = "update"
		case "apply":
			continue
		}
		for _, b := range mf.fn.Blocks {
			for _, in := range b.Instrs {
				switch x := in.(type) {
				case *ssa.FieldAddr:
					if mf.prov(x.X)&tPlugin != 0 && mf.prov(x.X)&(tAcc|tStaged) == 0 {
						if n := ptrNamed(x.X.Type()); n != nil {
							read[fam][tname(n.Obj())+"."+fieldName(x.X.Type(), x.Field)] = true
						}
					}
				case *ssa.Call:
					if f := m.callee(x.Common()); f != nil {
						if fld, ok := m.getterField(f); ok && mf.prov(x.Call.Args[0])&tPlugin != 0 && mf.prov(x.Call.Args[0])&(tAcc|tStaged) == 0 {
							if n := ptrNamed(x.Call.Args[0].Type()); n != nil {
								read[fam][tname(n.Obj())+"."+fld] = true
							}
						}
					}
				}
			}
		}
	}
	exempt := map[string]string{"LinuxResources.Devices": "device-cgroup rules are not adjustable through NRI"}
	check := func(fam string, typs ...string) {
		for _, tn := range typs {
			st := m.structOf(pkgAPI, tn)
			for i := 0; i < st.NumFields(); i++ {
				f := st.Field(i)
				if !f.Exported() {
					continue
				}
				name := tn + "." + f.Name()
				if _, ok := exempt[name]; ok {
					continue
				}
				c.ok("R13", fam+"/"+name, f.Pos(), read[fam][name], fmt.Sprintf("field %s of the plugin's %s is consumed by the merge", name, fam),
					"no merge function reads this field of the plugin's response: what the plugin sets there is silently dropped")
			}
		}
	}
	check("adjust", "ContainerAdjustment", "LinuxContainerAdjustment", "LinuxResources", "LinuxMemory", "LinuxCPU", "Hooks")
	check("update", "ContainerUpdate", "LinuxContainerUpdate", "LinuxResources", "LinuxMemory", "LinuxCPU")
}

func ptrNamed(t types.Type) *types.Named {
	if p, ok := t.Underlying().(*types.Pointer); ok {
		t = p.Elem()
	}
	n, _ := types.Unalias(t).(*types.Named)
	return n
}

// ruleR21: routing in apply.
func (ma *mergeAnalysis) ruleR21(c *Ctx) {
	m := c.M
	c.rule("R21", "routing in apply: for each response type the type switch passes the response's Update to update and (creation only) its Adjust to adjust; no case drops either", 4)
	mf := ma.get("apply")
	if mf == nil {
		panic(anchorErr{"result.apply not found"})
	}
	adjust, update := m.method(pkgAdapt, "result", "adjust"), m.method(pkgAdapt, "result", "update")
	// enumerate the response types of the RPCs that carry updates/adjustments
	want := map[string][]string{}
	for _, tn := range []string{"CreateContainerResponse", "UpdateContainerResponse", "StopContainerResponse"} {
		st := m.structOf(pkgAPI, tn)
		for i := 0; i < st.NumFields(); i++ {
			if n := fname(st.Field(i)); n == "Adjust" || n == "Update" {
				want[tn] = append(want[tn], n)
			}
		}
	}
	got := map[string]map[string]bool{}
	for _, ci := range calls(mf.fn) {
		g := m.callee(ci.Common())
		if g != adjust && g != update {
			continue
		}
		a := m.ap(ci.Common().Args[1])
		// root: the response parameter through a type assertion
		if n := ptrNamedOfAssert(a.Root, ci.Common().Args[1]); n != "" && len(a.Path) == 1 {
			if got[n] == nil {
				got[n] = map[string]bool{}
			}
			if (g == adjust && a.Path[0] == "Adjust") || (g == update && a.Path[0] == "Update") {
				got[n][a.Path[0]] = true
			}
		}
	}
	for _, tn := range sortedKeys(want) {
		for _, f := range want[tn] {
			c.ok("R21", tn+"."+f, mf.fn.Pos(), got[tn][f], fmt.Sprintf("apply routes %s.%s to the matching merge function", tn, f),
				"no call passes this part of the plugin's response to its merge function: it is silently ignored")
		}
	}
}

// ptrNamedOfAssert: the named type that value v (a field load) was loaded from.
func ptrNamedOfAssert(root ssa.Value, v ssa.Value) string {
	for i := 0; i < 10 && v != nil; i++ {
		switch x := v.(type) {
		case *ssa.UnOp:
			v = x.X
		case *ssa.FieldAddr:
			if n := ptrNamed(x.X.Type()); n != nil {
				return n.Obj().Name()
			}
			return ""
		default:
			return ""
		}
	}
	return ""
}

// ruleR22: the response getters return exactly the accumulators.
func (ma *mergeAnalysis) ruleR22(c *Ctx) {
	m := c.M
	c.rule("R22", "response getters: createContainerResponse, updateContainerResponse and stopContainerResponse return exactly the accumulators (reply.adjust, reply.update) — for updates with the request's own container appended last", 4)
	for _, f := range m.methodsOf(pkgAdapt, "result") {
		if f.Signature.Results().Len() != 1 || len(f.Params) != 1 {
			continue
		}
		rn := ptrNamed(f.Signature.Results().At(0).Type())
		if rn == nil || !strings.HasSuffix(rn.Obj().Name(), "Response") {
			continue
		}
		// stores into the fresh response object
		for _, b := range f.Blocks {
			for _, in := range b.Instrs {
				st, ok := in.(*ssa.Store)
				if !ok {
					continue
				}
				fa, ok := st.Addr.(*ssa.FieldAddr)
				if !ok {
					continue
				}
				if _, fresh := fa.X.(*ssa.Alloc); !fresh {
					continue
				}
				field := fieldName(fa.X.Type(), fa.Field)
				key := f.Name() + "/" + field
				switch field {
				case "Adjust":
					a := m.ap(st.Val)
					c.ok("R22", key, st.Pos(), a.Root == ssa.Value(f.Params[0]) && a.PathString() == "reply.adjust", f.Name()+" returns the accumulated adjustment",
						"Adjust is "+a.String()+", not r.reply.adjust")
				case "Update":
					if ap, ok := isBuiltinCall(st.Val, "append"); ok {
						ba := m.ap(ap.Call.Args[0])
						okB := ba.Root == ssa.Value(f.Params[0]) && ba.PathString() == "reply.update"
						// the appended element: r.updates[r.request.update.Container.Id]
						okE := false
						if len(ap.Call.Args) > 1 {
							for _, e := range (&mergeFn{m: m}).appendedElems(ap.Call.Args[1]) {
								ea := m.ap(e)
								if ea.Root == ssa.Value(f.Params[0]) && ea.PathString() == "updates.{}" {
									if lk := lookupOf(e); lk != nil {
										ka := m.ap(lk.Index)
										okE = ka.Root == ssa.Value(f.Params[0]) && ka.PathString() == "request.update.Container.Id"
									}
								}
							}
						}
						c.ok("R22", key, st.Pos(), okB && okE, f.Name()+" returns the accumulated updates with the request's own container last",
							"Update is not append(r.reply.update, r.updates[<id of the container being updated>]): the own container's entry is missing, not last, or the wrong one")
					} else {
						a := m.ap(st.Val)
						c.ok("R22", key, st.Pos(), a.Root == ssa.Value(f.Params[0]) && a.PathString() == "reply.update", f.Name()+" returns the accumulated updates",
							"Update is "+a.String()+", not r.reply.update")
					}
				}
			}
		}
	}
}

func lookupOf(v ssa.Value) *ssa.Lookup {
	for i := 0; i < 6 && v != nil; i++ {
		switch x := v.(type) {
		case *ssa.Lookup:
			return x
		case *ssa.Extract:
			v = x.Tuple
		case *ssa.UnOp:
			v = x.X
		default:
			return nil
		}
	}
	return nil
}

var _ = sort.Strings

// controlledByAccumulated: block b is controlled by a condition derived from
// accumulated state (the reply, the view, the ledger) — e.g. membership in a
// set of keys found in the reply.
func (mf *mergeFn) controlledByAccumulated(b *ssa.BasicBlock) bool {
	for _, cd := range mf.itemControls(b) {
		if mf.condProv(cd)&(tAcc|tStaged|tOwn) != 0 {
			return true
		}
		cd = normCond(cd)
		if ex, ok := cd.V.(*ssa.Extract); ok {
			if lk, ok := ex.Tuple.(*ssa.Lookup); ok && mf.prov(lk.X)&(tAcc|tStaged|tOwn) != 0 {
				return true
			}
		}
	}
	return false
}
