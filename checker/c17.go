package main

import (
	"fmt"
	"go/constant"
	"go/token"
	"go/types"
	"strings"

	"golang.org/x/tools/go/ssa"
)

func init() {
	register("C17", &propInfo{
		run: func(c *Ctx) {
			ruleA1(c)
			ruleA2(c)
			ruleA3(c)
			ruleA4(c)
			ruleA5(c)
			ruleF1(c)
			ruleS2S3(c) // a failed handshake or synchronization releases the sync gate, so later plugins can register
		},
		explanation: "Decides the gatekeeping structure of registration: in RegisterPlugin (for external plugins) the success report is dominated by the non-empty-name test and by a successful CheckPluginIndex, every failure reports a non-nil error on the registration channel and returns one; CheckPluginIndex returns nil only on paths whose branch conditions imply length 2 and two ASCII digits (decided by interval reasoning over the conditions); the registration channel has capacity >= 1 at every construction site; start waits in a select over the registration result, the connection-closed channel and a timer of the registration timeout, and its timeout branch closes and stops the plugin and returns an error; configure stores the plugin's event mask only after rejecting bits outside ValidEvents; the accept loop reaches the activation only through the success branches of connection set-up, start and synchronization and every failure continues with the next connection; the listener is only created when external connections are enabled and the socket directory is created with a mode that has no group/other bits. A failed handshake releases the sync gate; every directory the package creates is private.",
		notDecided: []string{
			"umask arithmetic (a umask only removes bits)",
			"that a silent plugin delays, not prevents, the next one by the timeout",
			"what bytes arrive on the socket",
		},
	})
}

func ruleA1(c *Ctx) {
	m := c.M
	c.rule("A1", "validation dominates success: in RegisterPlugin the nil send on the registration channel is dominated (for external plugins) by the non-empty-name test and by CheckPluginIndex succeeding; each failure sends a non-nil error and returns one; CheckPluginIndex returns nil only when its branch conditions imply len == 2 and both bytes in '0'..'9'; the registration channel is created with capacity >= 1", 6)
	f := m.method(pkgAdapt, "plugin", "RegisterPlugin")
	check := m.fn(pkgAPI, "CheckPluginIndex")
	plT := m.named(pkgAdapt, "plugin")
	req := f.Params[2]
	var sends []*ssa.Send
	for _, b := range f.Blocks {
		for _, in := range b.Instrs {
			if s, ok := in.(*ssa.Send); ok && m.ap(s.Chan).PathString() == "regC" {
				sends = append(sends, s)
			}
		}
	}
	// the external-plugin region
	var extIf *ssa.If
	for _, b := range f.Blocks {
		if iff := lastIf(b); iff != nil {
			if call, ok := iff.Cond.(*ssa.Call); ok {
				if g := m.callee(call.Common()); g != nil && g == m.method(pkgAdapt, "plugin", "isExternal") {
					extIf = iff
				}
			}
		}
	}
	nOK, nFail := 0, 0
	for _, s := range sends {
		if isNilConst(s.X) {
			nOK++
			// every path from the external branch to this send passes the name test's non-empty branch and the index check's ok branch
			bad := ""
			if extIf == nil {
				bad = "RegisterPlugin does not distinguish external plugins"
			} else {
				ext := extIf.Block().Succs[0]
				// name test
				var nameOK, idxOK *ssa.BasicBlock
				for _, b := range f.Blocks {
					iff := lastIf(b)
					if iff == nil || !ext.Dominates(b) {
						continue
					}
					if bo, ok := iff.Cond.(*ssa.BinOp); ok {
						if s0, isS := constString(bo.Y); isS && s0 == "" {
							a := m.ap(bo.X)
							if a.Root == ssa.Value(req) && a.PathString() == "PluginName" {
								if bo.Op == token.EQL {
									nameOK = b.Succs[1]
								} else if bo.Op == token.NEQ {
									nameOK = b.Succs[0]
								}
							}
						}
					}
				}
				for _, ci := range m.callsTo(f, check) {
					call := ci.(*ssa.Call)
					a := m.ap(call.Call.Args[0])
					if a.Root == ssa.Value(req) && a.PathString() == "PluginIdx" {
						for _, okb := range errOKBlocks(call) {
							idxOK = okb
						}
					}
				}
				switch {
				case nameOK == nil:
					bad = "no test rejecting an empty plugin name"
				case idxOK == nil:
					bad = "the plugin index is not checked with CheckPluginIndex"
				default:
					// the success send is unreachable from the external branch when either accepting block is removed
					for _, must := range []*ssa.BasicBlock{nameOK, idxOK} {
						if reachable(ext, map[*ssa.BasicBlock]bool{must: true})[s.Block()] {
							bad = "the success report can be reached for an external plugin without passing the name test and the index check: a plugin with an empty name or a malformed index is registered"
						}
					}
				}
				// the identity stored is the validated one
				for _, fs := range m.fieldStores(f, plT, "idx") {
					a := m.ap(fs.Store.Val)
					if a.Root != ssa.Value(req) || a.PathString() != "PluginIdx" || idxOK == nil || !idxOK.Dominates(fs.Store.Block()) {
						bad = "the index stored is not the validated request field"
					}
				}
			}
			c.ok("A1", "RegisterPlugin/success", s.Pos(), bad == "", "registration succeeds only for a non-empty name and a valid two-digit index", bad)
			continue
		}
		nFail++
		// failing send: non-nil value, and the block returns a non-nil error
		okF := isNonNilErrorValue(m, s.X, 0)
		okR := false
		for _, r := range returnsOf(f) {
			if s.Block().Dominates(r.Block()) {
				for _, v := range returnValues(r, 1) {
					if isNonNilErrorValue(m, v, 0) {
						okR = true
					}
				}
			}
		}
		c.ok("A1", fmt.Sprintf("RegisterPlugin/failure#%d", nFail), s.Pos(), okF && okR, "a rejected registration reports a non-nil error to start() and to the plugin", "the failure path does not report a non-nil error on the channel and as the RPC result")
	}
	if nOK != 1 {
		c.violate("A1", "RegisterPlugin/success", f.Pos(), "exactly one success report", fmt.Sprintf("%d nil sends on regC", nOK))
	}
	// CheckPluginIndex by interval reasoning
	checkIndexLogic(c, check)
	// capacity of regC at every construction site
	for _, g := range m.funcsInPkg(pkgAdapt) {
		for _, fs := range m.fieldStores(g, plT, "regC") {
			okC := false
			if mk, ok := fs.Store.Val.(*ssa.MakeChan); ok {
				if n, ok := constInt(mk.Size); ok && n >= 1 {
					okC = true
				}
			}
			c.ok("A1", "regC-capacity/"+funcKey(g), fs.Store.Pos(), okC, "the registration channel created in "+funcKey(g)+" has capacity >= 1", "unbuffered registration channel: the RegisterPlugin handler blocks when start() has already given up (timeout), leaking a goroutine per bad plugin")
		}
	}
}

// interval of a byte/len quantity
type ival struct{ lo, hi int64 }

// checkIndexLogic: every nil-returning path of CheckPluginIndex implies len(idx)==2 and idx[0], idx[1] in ['0','9'].
func checkIndexLogic(c *Ctx, f *ssa.Function) {
	key := "CheckPluginIndex"
	what := "CheckPluginIndex accepts exactly two ASCII digits"
	idx := f.Params[0]
	quantity := func(v ssa.Value) string {
		if ln, ok := isBuiltinCall(v, "len"); ok && ln.Call.Args[0] == ssa.Value(idx) {
			return "len"
		}
		var base, index ssa.Value
		switch x := v.(type) {
		case *ssa.Index:
			base, index = x.X, x.Index
		case *ssa.Lookup:
			base, index = x.X, x.Index
		}
		if base == ssa.Value(idx) {
			if k, ok := constInt(index); ok {
				return fmt.Sprintf("b%d", k)
			}
		}
		return ""
	}
	// enumerate acyclic paths from entry to nil-returning blocks, refining intervals by branch conditions
	bad := ""
	nNil := 0
	var walk func(b *ssa.BasicBlock, iv map[string]ival, depth int)
	walk = func(b *ssa.BasicBlock, iv map[string]ival, depth int) {
		if depth > 40 || bad != "" {
			return
		}
		if r, ok := b.Instrs[len(b.Instrs)-1].(*ssa.Return); ok {
			for _, v := range returnValues(r, 0) {
				if isNilConst(v) {
					nNil++
					l, b0, b1 := iv["len"], iv["b0"], iv["b1"]
					if !(l.lo == 2 && l.hi == 2) {
						bad = fmt.Sprintf("a path returns nil with len(idx) in [%d,%d]: indices that are not exactly 2 characters are accepted", l.lo, l.hi)
					} else if !(b0.lo >= '0' && b0.hi <= '9') || !(b1.lo >= '0' && b1.hi <= '9') {
						bad = fmt.Sprintf("a path returns nil with idx[0] in [%d,%d], idx[1] in [%d,%d]: non-digit indices are accepted and string order is no longer numeric order", b0.lo, b0.hi, b1.lo, b1.hi)
					}
				}
			}
			return
		}
		iff := lastIf(b)
		if iff == nil {
			for _, s := range b.Succs {
				walk(s, iv, depth+1)
			}
			return
		}
		for k, s := range b.Succs {
			pol := k == 0
			niv := map[string]ival{}
			for q, v := range iv {
				niv[q] = v
			}
			feasible := true
			if bo, ok := iff.Cond.(*ssa.BinOp); ok {
				x, y := bo.X, bo.Y
				op := bo.Op
				qx, qy := quantity(x), quantity(y)
				cx, okx := constInt(x)
				cy, oky := constInt(y)
				if qx == "" && qy != "" && okx {
					// const OP q  ->  q OP' const
					qx, cy, oky = qy, cx, true
					switch op {
					case token.LSS:
						op = token.GTR
					case token.LEQ:
						op = token.GEQ
					case token.GTR:
						op = token.LSS
					case token.GEQ:
						op = token.LEQ
					}
				}
				if qx != "" && oky {
					if !pol {
						switch op {
						case token.EQL:
							op = token.NEQ
						case token.NEQ:
							op = token.EQL
						case token.LSS:
							op = token.GEQ
						case token.LEQ:
							op = token.GTR
						case token.GTR:
							op = token.LEQ
						case token.GEQ:
							op = token.LSS
						}
					}
					cur := niv[qx]
					switch op {
					case token.EQL:
						if cy < cur.lo || cy > cur.hi {
							feasible = false
						}
						cur = ival{cy, cy}
					case token.NEQ:
						if cur.lo == cy && cur.hi == cy {
							feasible = false
						}
						if cur.lo == cy {
							cur.lo++
						}
						if cur.hi == cy {
							cur.hi--
						}
					case token.LSS:
						if cy-1 < cur.hi {
							cur.hi = cy - 1
						}
					case token.LEQ:
						if cy < cur.hi {
							cur.hi = cy
						}
					case token.GTR:
						if cy+1 > cur.lo {
							cur.lo = cy + 1
						}
					case token.GEQ:
						if cy > cur.lo {
							cur.lo = cy
						}
					}
					if cur.lo > cur.hi {
						feasible = false
					}
					niv[qx] = cur
				}
			}
			if feasible {
				walk(s, niv, depth+1)
			}
		}
	}
	walk(f.Blocks[0], map[string]ival{"len": {0, 1 << 30}, "b0": {0, 255}, "b1": {0, 255}}, 0)
	if nNil == 0 && bad == "" {
		bad = "no accepting path found"
	}
	c.ok("A1", key, f.Pos(), bad == "", what, bad)
}

func ruleA2(c *Ctx) {
	m := c.M
	c.rule("A2", "wait is a race: plugin.start waits in one select over the registration result, the connection-closed channel and a timer of the plugin registration timeout; the timeout branch closes and stops the plugin and returns an error; a failed registration result returns an error", 1)
	f := m.method(pkgAdapt, "plugin", "start")
	toFn := m.fn(pkgAdapt, "getPluginRegistrationTimeout")
	closeM, stopM := m.method(pkgAdapt, "plugin", "close"), m.method(pkgAdapt, "plugin", "stop")
	var sel *ssa.Select
	for _, b := range f.Blocks {
		for _, in := range b.Instrs {
			if s, ok := in.(*ssa.Select); ok && s.Blocking {
				sel = s
			}
		}
	}
	bad := ""
	if sel == nil {
		bad = "start does not wait in a select"
	} else {
		var hasReg, hasClose bool
		timerIdx := -1
		for i, st := range sel.States {
			p := m.ap(st.Chan).PathString()
			if p == "regC" {
				hasReg = true
			}
			if p == "closeC" {
				hasClose = true
			}
			if call, ok := st.Chan.(*ssa.Call); ok {
				if g := m.callee(call.Common()); g != nil && g.String() == "time.After" {
					// duration from getPluginRegistrationTimeout()
					for _, src := range valueSources(call.Call.Args[0], call, 0) {
						if d, ok := src.(*ssa.Call); ok && m.callee(d.Common()) == toFn {
							timerIdx = i
						}
					}
				}
			}
		}
		switch {
		case !hasReg:
			bad = "the select does not wait for the registration result"
		case !hasClose:
			bad = "the select has no case for the connection being closed: a plugin that disconnects before registering holds the accept loop until the timeout"
		case timerIdx < 0:
			bad = "the select has no timer of the registration timeout: a plugin that connects and never registers blocks every later registration forever"
		default:
			// the timeout branch: blocks controlled by select index == timerIdx
			okBranch := false
			for _, b := range f.Blocks {
				for _, cd := range controls(b) {
					cd = normCond(cd)
					bo, ok := cd.V.(*ssa.BinOp)
					if !ok || bo.Op != token.EQL || !cd.Pol {
						continue
					}
					ex, ok := bo.X.(*ssa.Extract)
					if !ok || ex.Tuple != ssa.Value(sel) || ex.Index != 0 {
						continue
					}
					if k, ok := constInt(bo.Y); !ok || int(k) != timerIdx {
						continue
					}
					var hasC, hasS, hasE bool
					for _, in := range b.Instrs {
						if ci, ok := in.(ssa.CallInstruction); ok {
							if m.callee(ci.Common()) == closeM {
								hasC = true
							}
							if m.callee(ci.Common()) == stopM {
								hasS = true
							}
						}
						if r, ok := in.(*ssa.Return); ok {
							for _, v := range returnValues(r, 0) {
								if isNonNilErrorValue(m, v, 0) {
									hasE = true
								}
							}
						}
					}
					if hasC && hasS && hasE {
						okBranch = true
					}
				}
			}
			if !okBranch {
				bad = "the timeout branch does not close and stop the plugin and return an error"
			}
		}
	}
	pos := f.Pos()
	if sel != nil {
		pos = sel.Pos()
	}
	c.ok("A2", "start/select", pos, bad == "", "start races registration against disconnect and the registration timeout", bad)
}

func ruleA4(c *Ctx) {
	m := c.M
	c.rule("A4", "activation needs all of it: the accept loop reaches the activation only through the success branches of newExternalPlugin, start and the sync callback; every failure continues with the next connection (no return), so later plugins are served", 3)
	f := acceptLoop(m)
	loopFn, loopCall := acceptLoopFn(m)
	sites := activationSites(m, f)
	if len(sites) == 0 {
		c.violate("A4", "activation", f.Pos(), "the accept loop activates plugins", "no activation found")
		return
	}
	act := sites[0].At
	steps := []struct {
		name string
		fn   *ssa.Function
	}{{"newExternalPlugin", m.method(pkgAdapt, "Adaptation", "newExternalPlugin")}, {"start", m.method(pkgAdapt, "plugin", "start")}}
	for _, s := range steps {
		cs := m.callsTo(f, s.fn)
		bad := ""
		if len(cs) != 1 {
			bad = fmt.Sprintf("%d calls of %s", len(cs), s.name)
		} else {
			call := cs[0].(*ssa.Call)
			if !guardedBy(call, act.Block()) {
				bad = "the activation is reachable although " + s.name + " failed: an unregistered or unconfigured plugin becomes active"
			}
			for _, fb := range errFailBlocks(call) {
				if loopCall != nil {
					continue // the failure returns to the Accept loop, checked once below
				}
				// failure continues the loop: no return reachable without passing the loop head again
				for _, r := range returnsOf(f) {
					if fb.Dominates(r.Block()) {
						bad = "a failure of " + s.name + " ends the accept loop: one bad plugin prevents all later registrations"
					}
				}
				if !canReach(fb, call.Block()) {
					bad = "after a failure of " + s.name + " the loop does not continue"
				}
			}
		}
		pos := f.Pos()
		if len(cs) > 0 {
			pos = cs[0].Pos()
		}
		c.ok("A4", s.name, pos, bad == "", "the accept loop needs "+s.name+" to succeed and survives its failure", bad)
	}
	// sync failure: loop continues
	for _, sf := range syncFnCalls(m, f) {
		ok := canReach(sf.Block(), sf.Block())
		if loopCall != nil {
			// the registration lives in a helper: whatever it does, the Accept loop goes on afterwards
			ok = canReach(loopCall.Block(), loopCall.Block())
			for _, r := range returnsOf(loopFn) {
				if loopCall.Block().Dominates(r.Block()) {
					ok = false
				}
			}
		}
		c.ok("A4", "sync-failure-continues", sf.Pos(), ok, "after a failed synchronization the accept loop serves the next connection", "the loop ends after the synchronization")
	}
}

func ruleA5(c *Ctx) {
	m := c.M
	c.rule("A5", "socket: the listener is created only on the branch where external connections are not disabled; the directory for the socket is created with a constant mode that has no group/other bits", 2)
	f := m.method(pkgAdapt, "Adaptation", "startListener")
	var listen, mkdir ssa.CallInstruction
	for _, ci := range calls(f) {
		g := m.callee(ci.Common())
		if g == nil {
			continue
		}
		switch g.String() {
		case "net.ListenUnix", "net.Listen":
			listen = ci
		case "os.MkdirAll", "os.Mkdir":
			mkdir = ci
		}
	}
	bad := ""
	if listen == nil {
		bad = "no listener creation found"
	} else {
		dep := false
		for _, cd := range controls(listen.Block()) {
			cd = normCond(cd)
			if m.ap(cd.V).PathString() == "dontListen" && !cd.Pol {
				dep = true
			}
		}
		if !dep {
			bad = "the listener is created whatever the disable flag says: a socket is served although external connections are disabled"
		}
	}
	pos := f.Pos()
	if listen != nil {
		pos = listen.Pos()
	}
	c.ok("A5", "listen", pos, bad == "", "no socket is served when external connections are disabled", bad)
	// also: acceptPluginConnections is only called from startListener after the listener exists
	bad = ""
	if mkdir == nil {
		bad = "the socket directory is not created by NRI (nothing to decide)"
		c.add("A5", "dirmode", f.Pos(), Discharged, "socket directory mode", bad)
		return
	}
	mode := mkdir.Common().Args[1]
	mc, ok := mode.(*ssa.Const)
	if !ok || mc.Value == nil || mc.Value.Kind() != constant.Int {
		bad = "the directory mode is not a constant"
	} else {
		v, _ := constant.Int64Val(mc.Value)
		if v&0o077 != 0 {
			bad = fmt.Sprintf("the socket directory is created with mode %#o: other users can reach the NRI socket", v)
		}
	}
	c.ok("A5", "dirmode", mkdir.Pos(), bad == "", "the socket directory is private to the runtime's user", bad)
	// nothing else in the package creates it first with a wider mode (an option that "prepares" the directory would
	// turn the private MkdirAll above into a no-op)
	n := 0
	for _, g := range m.funcsInPkg(pkgAdapt) {
		for _, ci := range calls(g) {
			h := m.callee(ci.Common())
			if h == nil || (h.String() != "os.MkdirAll" && h.String() != "os.Mkdir") || ci == mkdir {
				continue
			}
			n++
			okM := false
			if k, isC := constInt(ci.Common().Args[1]); isC && k&0o077 == 0 {
				okM = true
			}
			c.ok("A5", fmt.Sprintf("dirmode/%s#%d", funcKey(g), n), ci.Pos(), okM, "every directory the adaptation creates is private to the runtime's user",
				"a directory is created with a mode that has group/other bits (or a non-constant mode): if it is the socket's directory the later private MkdirAll is a no-op and other users can reach the NRI socket")
		}
	}
	_ = types.Typ
	_ = strings.TrimSpace
}
