package main

import (
	"fmt"
	"go/token"
	"go/types"
	"strings"

	"golang.org/x/tools/go/ssa"
)

func init() {
	register("C11", &propInfo{
		run: func(c *Ctx) {
			ruleX1(c)
			ruleX2(c)
			ruleX3(c)
			ruleX4(c)
			ruleX5(c)
			ruleX6(c)
			ruleM6(c) // the table mux.Close walks holds every open connection: a stale handle cannot unregister a live one
		},
		explanation: "Decides the fail-stop structure of the multiplexer: every exit of the reader loop other than the one taken on the done channel is preceded on every path by latching the error and closing the mux (including the queue-overflow branch), and a partially written frame does the same in write; every close() of a channel stored in a struct field of the net and multiplex packages runs inside a sync.Once body or under a lock behind a test-and-set flag; every blocking receive of those packages has a channel that some close path closes (a connection's Read selects on its done channel, which conn.close closes, which mux.Close calls for every registered connection; Accept's channel is closed by Close); Write tests the done channel before writing, the first error is latched once and error() never yields nil; closing the mux is never reachable with its own once or the connection lock already held. The listener's closed flag is read under the same exclusive lock the close is made under; conn.Close unregisters only itself, so mux.Close reaches every open connection. A channel that another function sends on is never closed; no multiplexer lock is acquired while it is already held.",
		notDecided: []string{
			"promptness as time",
			"that a truncated frame makes io.ReadFull fail (standard library)",
			"races between a queued message and the done channel in Read's select (both outcomes are prefixes)",
		},
	})
}

func ruleX1(c *Ctx) {
	m := c.M
	c.rule("X1", "latch-and-close on every abnormal exit: every return of the reader loop except the one taken on the done channel is preceded on every path by setError and then Close; when a trunk write fails after some bytes were written, write does the same", 5)
	rd := m.method(pkgMux, "mux", "reader")
	setErr := m.method(pkgMux, "mux", "setError")
	closeM := m.method(pkgMux, "mux", "Close")
	muxT := m.named(pkgMux, "mux")
	n := 0
	for _, r := range returnsOf(rd) {
		// the orderly exit: controlled by a receive on m.doneC
		orderly := false
		for _, cd := range controls(r.Block()) {
			cd = normCond(cd)
			if bo, ok := cd.V.(*ssa.BinOp); ok && ((bo.Op == token.EQL && cd.Pol) || (bo.Op == token.NEQ && !cd.Pol)) && selectOnField(cd.V, muxT, "doneC") {
				orderly = true
			}
		}
		if orderly {
			continue
		}
		n++
		key := fmt.Sprintf("reader/exit#%d", n)
		var cl, se ssa.CallInstruction
		for _, ci := range m.callsTo(rd, closeM) {
			if domInstr(ci, r) && (cl == nil || domInstr(cl, ci)) {
				cl = ci
			}
		}
		if cl != nil {
			for _, ci := range m.callsTo(rd, setErr) {
				if domInstr(ci, cl) && (se == nil || domInstr(se, ci)) {
					se = ci
				}
			}
		}
		// a helper that latches and closes on every path counts as both
		for _, ci := range calls(rd) {
			if g := m.callee(ci.Common()); g != nil && isLatchClose(m, g, setErr, closeM) && domInstr(ci, r) {
				if cl == nil || domInstr(cl, ci) {
					cl, se = ci, ci
				}
			}
		}
		bad := ""
		switch {
		case cl == nil:
			bad = "the reader exits without closing the mux: readers of every logical connection hang instead of getting an error"
		case se == nil:
			bad = "the reader closes the mux without latching the error first: readers see end-of-file instead of the failure"
		default:
			// both belong to this exit: no loop back between them and the return
			if canReach(r.Block(), cl.Block()) {
				bad = "the close is not on the exit path"
			}
			// the close must not be shared with a path that continues the loop
			if !m.postDominates(r.Block(), cl.Block()) && cl.Block() != r.Block() {
				bad = "after latching and closing the reader can continue reading"
			}
		}
		c.ok("X1", key, r.Pos(), bad == "", "the reader exit latches the error and closes the mux on every path", bad)
	}
	// after a failed trunk read the reader never reads again
	_, treads := trunkUses(m)
	for i, tr := range treads {
		if tr.Parent() != rd {
			continue
		}
		call, ok := tr.(*ssa.Call)
		if !ok {
			continue
		}
		bad := ""
		fbs := errFailBlocks(call)
		if len(fbs) == 0 {
			bad = "the error of the trunk read is not tested"
		}
		for _, fb := range fbs {
			if canReach(fb, call.Block()) || fb == call.Block() {
				bad = "after a failed trunk read the reader can go on reading: bytes of a partly consumed frame are taken for a header (or a frame is skipped), so readers see damaged or missing frames instead of an error"
			}
		}
		c.ok("X1", fmt.Sprintf("reader/read-error-final#%d", i+1), tr.Pos(), bad == "", "a failed trunk read ends the reader", bad)
	}
	if n < 3 {
		c.violate("X1", "reader/exits", rd.Pos(), "the reader has abnormal exits for header error, payload error and queue overflow", fmt.Sprintf("only %d abnormal exits found", n))
	}
	// overflow: the select with default on the queue
	// (covered as one of the exits above: the default branch returns)
	// write: partial writes
	wr := m.method(pkgMux, "mux", "write")
	writes, _ := trunkUses(m)
	for i, w := range writes {
		if w.Parent() != wr {
			continue
		}
		call, ok := w.(*ssa.Call)
		if !ok {
			continue
		}
		key := fmt.Sprintf("write/partial#%d", i+1)
		bad := "the error of the trunk write is not tested"
		for _, fb := range errFailBlocks(call) {
			bad = "a failed trunk write that already wrote some bytes does not latch the error and close the mux: the peer's framing is broken but both ends carry on"
			// inside the failing region: if n != 0 { setError; Close }
			var nval ssa.Value
			for _, r := range *call.Referrers() {
				if ex, ok := r.(*ssa.Extract); ok && ex.Index == 0 {
					nval = ex
				}
			}
			for _, b := range wr.Blocks {
				if !fb.Dominates(b) {
					continue
				}
				isPartial := false
				extra := false
				for _, cd := range controls(b) {
					inRegion := cd.If != nil && (cd.If.Block() == fb || fb.Dominates(cd.If.Block()))
					cd = normCond(cd)
					if bo, ok := cd.V.(*ssa.BinOp); ok && bo.X == nval {
						if z, ok := constInt(bo.Y); ok && z == 0 && ((bo.Op == token.NEQ && cd.Pol) || (bo.Op == token.EQL && !cd.Pol) || (bo.Op == token.GTR && cd.Pol)) {
							isPartial = true
							continue
						}
					}
					if inRegion {
						extra = true // the teardown additionally depends on something else (the kind of error, …)
					}
				}
				if !isPartial || extra {
					continue
				}
				var hasSet, hasClose ssa.CallInstruction
				for _, in := range b.Instrs {
					if ci, ok := in.(ssa.CallInstruction); ok {
						if m.callee(ci.Common()) == setErr {
							hasSet = ci
						}
						if m.callee(ci.Common()) == closeM {
							hasClose = ci
						}
						if g := m.callee(ci.Common()); g != nil && isLatchClose(m, g, setErr, closeM) {
							bad = ""
						}
					}
				}
				if hasSet != nil && hasClose != nil && domInstr(hasSet, hasClose) {
					bad = ""
				}
			}
			// the failing branch returns an error
			okRet := false
			for _, r := range returnsOf(wr) {
				if fb.Dominates(r.Block()) {
					for _, v := range returnValues(r, 1) {
						if !isNilConst(v) {
							okRet = true
						}
					}
				}
			}
			if !okRet && bad == "" {
				bad = "the failing branch does not return an error"
			}
		}
		c.ok("X1", key, w.Pos(), bad == "", "a failed trunk write returns an error and, if partial, fails the whole mux", bad)
	}
}

// selectOnField: v is the index / ok result of a select whose states include a receive on owner.field.
func selectOnField(v ssa.Value, owner *types.Named, field string) bool {
	var sel *ssa.Select
	var idx ssa.Value = v
	if bo, ok := v.(*ssa.BinOp); ok {
		idx = bo.X
	}
	if ex, ok := idx.(*ssa.Extract); ok {
		sel, _ = ex.Tuple.(*ssa.Select)
	}
	if sel == nil {
		return false
	}
	// which state does the comparison select?
	want := -1
	if bo, ok := v.(*ssa.BinOp); ok {
		if k, ok := constInt(bo.Y); ok {
			want = int(k)
		}
	}
	for i, st := range sel.States {
		if want >= 0 && i != want {
			continue
		}
		if u, ok := st.Chan.(*ssa.UnOp); ok {
			if fa, ok := u.X.(*ssa.FieldAddr); ok && isFieldOf(fa, owner, field) {
				return true
			}
		}
	}
	return false
}

func ruleX2(c *Ctx) {
	m := c.M
	c.rule("X2", "close is once-guarded: in pkg/net and pkg/net/multiplex every close(ch) of a channel stored in a struct field runs inside a function passed to sync.Once.Do, or under a lock and dominated by the not-yet-closed branch of a flag that is set on the same path", 4)
	la := allLocks(c)
	n := 0
	for _, pkg := range []string{pkgMux, pkgNet} {
		for _, f := range m.funcsInPkg(pkg) {
			for _, call := range calls(f) {
				if _, isGo := call.(*ssa.Go); isGo {
					continue
				}
				bi, ok := call.Common().Value.(*ssa.Builtin)
				if !ok || bi.Name() != "close" {
					continue
				}
				a := m.ap(call.Common().Args[0])
				if len(a.Path) == 0 {
					continue // local channel
				}
				n++
				key := funcKey(f) + "/" + a.Path[len(a.Path)-1]
				what := fmt.Sprintf("close of channel %s in %s happens at most once", a.PathString(), funcKey(f))
				// a channel that another function sends on is never closed: the sender cannot know, and a send on a
				// closed channel panics
				if k := chanField(call.Common().Args[0]); k != "" {
					sender := ""
					for _, pkg2 := range []string{pkgMux, pkgNet} {
						for _, g := range m.funcsInPkg(pkg2) {
							if g == f {
								continue
							}
							for _, bb := range g.Blocks {
								for _, in := range bb.Instrs {
									switch x := in.(type) {
									case *ssa.Send:
										if chanField(x.Chan) == k && !ownerIsFresh(x.Chan) {
											sender = funcKey(g)
										}
									case *ssa.Select:
										for _, st := range x.States {
											if st.Dir == types.SendOnly && chanField(st.Chan) == k {
												sender = funcKey(g)
											}
										}
									}
								}
							}
						}
					}
					if sender != "" {
						c.violate("X2", key+"/has-sender", call.Pos(), "a channel that "+sender+" sends on is not closed by "+funcKey(f),
							"the channel is closed here while "+sender+" sends on it without holding a lock across lookup and send: a close that falls between the two makes the send panic (send on closed channel)")
					}
				}
				held := la.heldAt(call)
				once := false
				for l := range held {
					if strings.HasPrefix(l.Name, "once:") {
						once = true
					}
				}
				if once {
					c.add("X2", key, call.Pos(), Discharged, what+" (sync.Once body)", "")
					continue
				}
				// flag idiom
				okFlag := false
				locked := false
				for l := range held {
					if !strings.HasPrefix(l.Name, "once:") && l.Mode == 'W' {
						locked = true
					}
				}
				for _, cd := range controls(call.Block()) {
					cd = normCond(cd)
					ld, ok := cd.V.(*ssa.UnOp)
					if !ok || cd.Pol {
						continue
					}
					fa, ok := ld.X.(*ssa.FieldAddr)
					if !ok {
						continue
					}
					// the flag is read under the same exclusive lock as the close is made (a test made under a read
					// lock, or before the lock is taken, lets two closers both see "not closed")
					sameLock := false
					for l := range held {
						if !strings.HasPrefix(l.Name, "once:") && l.Mode == 'W' && la.heldAt(ld)[l] {
							sameLock = true
						}
					}
					if !sameLock {
						continue
					}
					// the same flag is set to true on this path
					for _, b := range f.Blocks {
						for _, in := range b.Instrs {
							if st, ok := in.(*ssa.Store); ok && isConstBool(st.Val, true) {
								if f2, ok := st.Addr.(*ssa.FieldAddr); ok && f2.Field == fa.Field && f2.X == fa.X {
									if st.Block() == call.Block() || m.postDominates(st.Block(), call.Block()) || domInstr(st, call) {
										okFlag = true
									}
								}
							}
						}
					}
				}
				c.ok("X2", key, call.Pos(), okFlag && locked, what,
					"the close is neither inside a sync.Once body nor behind a locked test-and-set flag: closing twice (concurrently or repeatedly) panics")
			}
		}
	}
	_ = n
}

func ruleX3(c *Ctx) {
	m := c.M
	c.rule("X3", "wake-ups: every blocking receive in pkg/net and pkg/net/multiplex (bare receive, or select without default) has an operand channel that a close path of the owning type closes; mux.Close closes every registered connection", 4)
	// channels closed anywhere in the packages, by owner.field
	closed := map[string]bool{}
	for _, pkg := range []string{pkgMux, pkgNet} {
		for _, f := range m.funcsInPkg(pkg) {
			for _, ci := range calls(f) {
				if call, ok := ci.(*ssa.Call); ok {
					if bi, ok := call.Call.Value.(*ssa.Builtin); ok && bi.Name() == "close" {
						if k := chanField(call.Call.Args[0]); k != "" {
							closed[k] = true
						}
					}
				}
			}
		}
	}
	ord := map[string]int{}
	for _, pkg := range []string{pkgMux, pkgNet} {
		for _, f := range m.funcsInPkg(pkg) {
			for _, b := range f.Blocks {
				for _, in := range b.Instrs {
					var chans []string
					var pos token.Pos
					switch x := in.(type) {
					case *ssa.UnOp:
						if x.Op != token.ARROW {
							continue
						}
						chans = []string{chanField(x.X)}
						pos = x.Pos()
					case *ssa.Select:
						if !x.Blocking {
							continue
						}
						for _, st := range x.States {
							if st.Dir == types.RecvOnly {
								chans = append(chans, chanField(st.Chan))
							}
						}
						pos = x.Pos()
					default:
						continue
					}
					base := funcKey(f) + "/recv"
					ord[base]++
					key := fmt.Sprintf("%s#%d", base, ord[base])
					okW := false
					for _, ch := range chans {
						if ch != "" && closed[ch] {
							okW = true
						}
					}
					c.ok("X3", key, pos, okW, fmt.Sprintf("the blocking receive in %s (on %s) is woken by a close", funcKey(f), strings.Join(chans, ", ")),
						"none of the channels received from is ever closed by this package: after Close (or a failure) this receive blocks forever")
				}
			}
		}
	}
	// mux.Close closes every registered connection and the done channel, and closes the trunk
	cl := m.method(pkgMux, "mux", "Close")
	connClose := m.method(pkgMux, "conn", "close")
	// the body that runs once: the function handed to sync.Once.Do in Close (a closure or a method value)
	var body *ssa.Function
	for _, ci := range calls(cl) {
		if g := m.callee(ci.Common()); g != nil && g.String() == "(*sync.Once).Do" && len(ci.Common().Args) == 2 {
			body = closureFn(ci.Common().Args[1])
		}
	}
	if body == nil {
		for _, af := range cl.AnonFuncs {
			body = af
		}
	}
	okAll, okTrunk := false, false
	if body != nil {
		for _, ci := range m.callsTo(body, connClose) {
			coll, _ := rangeOf(ci.Common().Args[0])
			if coll != nil && m.ap(coll).PathString() == "conns" && inLoop(ci.Block()) {
				okAll = true
			}
		}
		for _, ci := range calls(body) {
			if ci.Common().IsInvoke() && ci.Common().Method.Name() == "Close" && m.ap(ci.Common().Value).PathString() == "trunk" {
				okTrunk = true
			}
		}
	}
	c.ok("X3", "mux.Close/all-conns", cl.Pos(), okAll, "mux.Close closes every connection registered in conns", "mux.Close does not range over conns calling close: readers of some connections are never woken")
	c.ok("X3", "mux.Close/trunk", cl.Pos(), okTrunk, "mux.Close closes the trunk", "the trunk is not closed: the reader goroutine and the peer never notice")
	// conn.Close / connListener.Close reach the once-guarded close
	cC := m.method(pkgMux, "conn", "Close")
	c.ok("X3", "conn.Close", cC.Pos(), len(m.callsTo(cC, connClose)) > 0, "conn.Close closes the connection's done channel", "conn.Close does not call close(): a blocked Read on a closed connection hangs")
}

// chanField: "owner.field" of a channel value loaded from a struct field.
func chanField(v ssa.Value) string {
	u, ok := v.(*ssa.UnOp)
	if !ok {
		return ""
	}
	fa, ok := u.X.(*ssa.FieldAddr)
	if !ok {
		return ""
	}
	n := ptrNamed(fa.X.Type())
	if n == nil {
		return ""
	}
	return tname(n.Obj()) + "." + fieldName(fa.X.Type(), fa.Field)
}

func ruleX4(c *Ctx) {
	m := c.M
	c.rule("X4", "error-before-data order: conn.Write tests the done channel (non-blocking) before handing data to the mux; setError stores the first error only (inside a sync.Once body); error() never returns nil (an unset error becomes io.EOF under the same once); Read returns the latched error when the done channel fires", 4)
	la := allLocks(c)
	muxT := m.named(pkgMux, "mux")
	connT := m.named(pkgMux, "conn")
	w := m.method(pkgMux, "conn", "Write")
	mw := m.method(pkgMux, "mux", "write")
	okW := false
	for _, ci := range m.callsTo(w, mw) {
		for _, b := range w.Blocks {
			for _, in := range b.Instrs {
				if sel, ok := in.(*ssa.Select); ok && !sel.Blocking && domInstr(sel, ci) {
					for _, st := range sel.States {
						if u, ok := st.Chan.(*ssa.UnOp); ok {
							if fa, ok := u.X.(*ssa.FieldAddr); ok && isFieldOf(fa, connT, "doneC") {
								// the done case returns an error without writing
								okW = true
							}
						}
					}
				}
			}
		}
		// the write is only reached through the default case
		for _, cd := range controls(ci.Block()) {
			_ = cd
		}
	}
	c.ok("X4", "Write/done-first", w.Pos(), okW, "conn.Write checks the done channel before writing", "conn.Write hands data to the mux without checking that the connection is closed: data is written after close")
	// done case returns non-nil error
	okE := true
	for _, r := range returnsOf(w) {
		direct := false
		for _, ci := range m.callsTo(w, mw) {
			if call, ok := ci.(*ssa.Call); ok {
				for _, v := range returnValues(r, 1) {
					if ex, ok := v.(*ssa.Extract); ok && ex.Tuple == ssa.Value(call) {
						direct = true
					}
				}
			}
		}
		if direct {
			continue
		}
		for _, v := range returnValues(r, 1) {
			if isNilConst(v) {
				okE = false
			}
		}
	}
	c.ok("X4", "Write/closed-error", w.Pos(), okE, "conn.Write on a closed connection returns a non-nil error", "a write on a closed connection can return a nil error")
	se := m.method(pkgMux, "mux", "setError")
	okS := false
	for _, f := range append([]*ssa.Function{se}, se.AnonFuncs...) {
		for _, fs := range m.fieldStores(f, muxT, "err") {
			held := la.heldAt(fs.Store)
			if held[lockID{"once:mux.errOnce", 'W'}] {
				okS = true
			} else {
				okS = false
			}
		}
	}
	c.ok("X4", "setError/first-only", se.Pos(), okS, "setError records the error inside the error once (the first error wins)", "the latched error can be overwritten by a later one (or is not recorded)")
	ef := m.method(pkgMux, "mux", "error")
	okN := false
	for _, f := range ef.AnonFuncs {
		for _, fs := range m.fieldStores(f, muxT, "err") {
			underNil := false
			for _, cd := range controls(fs.Store.Block()) {
				cd = normCond(cd)
				if bo, ok := cd.V.(*ssa.BinOp); ok && isNilConst(bo.Y) && ((bo.Op == token.EQL && cd.Pol) || (bo.Op == token.NEQ && !cd.Pol)) {
					underNil = true
				}
			}
			nonNil := false
			if u, ok := fs.Store.Val.(*ssa.UnOp); ok {
				if g, ok := u.X.(*ssa.Global); ok && g.Pkg.Pkg.Path() == "io" && g.Name() == "EOF" {
					nonNil = true
				}
			}
			if underNil && nonNil && la.heldAt(fs.Store)[lockID{"once:mux.errOnce", 'W'}] {
				okN = true
			}
		}
	}
	// returns m.err
	okRet := false
	for _, r := range returnsOf(ef) {
		a := m.ap(r.Results[0])
		if a.PathString() == "err" {
			okRet = true
		}
	}
	c.ok("X4", "error/never-nil", ef.Pos(), okN && okRet, "error() substitutes io.EOF for an unset error under the error once and returns the latched error", "error() can return nil: a reader of a closed connection gets (0, nil) instead of an error")
	// Read: the done case and the closed-queue case return mux.error() or the received error
	rd := m.method(pkgMux, "conn", "Read")
	okR := true
	n := 0
	for _, r := range returnsOf(rd) {
		zero := false
		for _, v := range returnValues(r, 0) {
			if k, ok := constInt(v); ok && k == 0 {
				zero = true
			}
		}
		if !zero {
			continue
		}
		n++
		for _, v := range returnValues(r, 1) {
			if isNilConst(v) {
				okR = false
			}
		}
	}
	c.ok("X4", "Read/error-returns", rd.Pos(), okR && n >= 2, "every data-less return of conn.Read carries a non-nil error", fmt.Sprintf("a return of (0, nil) is possible (%d data-less returns)", n))
}

func ruleX5(c *Ctx) {
	c.rule("X5", "Close completes: the body of mux.Close (which takes the connection lock) is never reachable with the connection lock or the same once already held, and nothing holds the connection lock while waiting for the close once", 1)
	la := allLocks(c)
	bad := ""
	for _, e := range append(append([]lockEdge{}, la.edges...), la.transitiveEdges()...) {
		if e.From == "mux.connLock" && (e.To == "once:mux.closeOnce" || e.To == "mux.connLock") {
			bad = fmt.Sprintf("%s is reached in %s (at %s) with the connection lock held: Close deadlocks on its own lock", e.To, funcKey(e.Fn), c.pos(e.At.Pos()))
		}
		// no lock of the multiplexer is taken again while it is held (sync.Mutex is not reentrant): in particular the
		// write path closes the mux from its error branch with the write lock held, so Close may not need that lock
		if e.From == e.To && (e.From == "mux.writeLock" || e.From == "mux.connLock") {
			bad = fmt.Sprintf("%s is acquired in %s (at %s) while it is already held: the goroutine deadlocks on its own lock (a write that fails mid-frame closes the mux with the write lock held)", e.To, funcKey(e.Fn), c.pos(e.At.Pos()))
		}
		if e.From == "once:mux.closeOnce" && e.To == "once:mux.closeOnce" {
			bad = fmt.Sprintf("mux.Close is re-entered from its own once body in %s: sync.Once.Do deadlocks", funcKey(e.Fn))
		}
	}
	c.ok("X5", "mux.Close", c.M.method(pkgMux, "mux", "Close").Pos(), bad == "", "mux.Close can always complete", bad)
}

// isLatchClose: g latches the error and then closes the mux on every path.
func isLatchClose(m *Module, g, setErr, closeM *ssa.Function) bool {
	if g == nil || g.Blocks == nil || g == setErr || g == closeM {
		return false
	}
	var se, cl ssa.CallInstruction
	for _, ci := range m.callsTo(g, setErr) {
		se = ci
	}
	for _, ci := range m.callsTo(g, closeM) {
		cl = ci
	}
	if se == nil || cl == nil || !domInstr(se, cl) {
		return false
	}
	for _, r := range returnsOf(g) {
		if !domInstr(cl, r) {
			return false
		}
	}
	return true
}

// ruleX6: the listener wrapper hands its connection out once.
func ruleX6(c *Ctx) {
	m := c.M
	c.rule("X6", "listener wrapper: NewConnListener queues the wrapped connection exactly once on a channel of capacity >= 1; Accept returns io.EOF when the channel yields nothing (closed); Close closes the wrapped connection", 3)
	nl := m.fn(pkgNet, "NewConnListener")
	var mk *ssa.MakeChan
	sends := 0
	for _, b := range nl.Blocks {
		for _, in := range b.Instrs {
			switch x := in.(type) {
			case *ssa.MakeChan:
				mk = x
			case *ssa.Send:
				if x.X == ssa.Value(nl.Params[0]) {
					sends++
					if inLoop(b) {
						sends++
					}
				}
			}
		}
	}
	capOK := false
	if mk != nil {
		if n, ok := constInt(mk.Size); ok && n >= 1 {
			capOK = true
		}
	}
	c.ok("X6", "NewConnListener", nl.Pos(), capOK && sends == 1, "the wrapped connection is queued exactly once, without blocking", fmt.Sprintf("capacity>=1: %v, sends of the connection: %d — Accept hands the connection out twice, never, or the constructor blocks", capOK, sends))
	ac := m.method(pkgNet, "connListener", "Accept")
	okEOF := false
	for _, r := range returnsOf(ac) {
		for _, v := range returnValues(r, 1) {
			if u, ok := v.(*ssa.UnOp); ok {
				if g, ok := u.X.(*ssa.Global); ok && g.Name() == "EOF" {
					// on the branch where the received connection is nil
					for _, cd := range controls(r.Block()) {
						cd = normCond(cd)
						if bo, ok := cd.V.(*ssa.BinOp); ok && isNilConst(bo.Y) && ((bo.Op == token.EQL && cd.Pol) || (bo.Op == token.NEQ && !cd.Pol)) {
							okEOF = true
						}
					}
				}
			}
		}
	}
	c.ok("X6", "Accept", ac.Pos(), okEOF, "Accept reports io.EOF once the listener is closed", "Accept does not return io.EOF when the channel is closed: the ttrpc server's accept loop spins or returns a nil connection")
	cl := m.method(pkgNet, "connListener", "Close")
	okC := false
	for _, ci := range calls(cl) {
		if ci.Common().IsInvoke() && ci.Common().Method.Name() == "Close" && m.ap(ci.Common().Value).PathString() == "conn" {
			okC = true
		}
	}
	c.ok("X6", "Close", cl.Pos(), okC, "closing the listener closes the wrapped connection", "the wrapped connection is not closed")
}

// ownerIsFresh: the channel is a field of an object created in this very function (a constructor filling
// its queue before the object is shared).
func ownerIsFresh(ch ssa.Value) bool {
	u, ok := ch.(*ssa.UnOp)
	if !ok {
		return false
	}
	fa, ok := u.X.(*ssa.FieldAddr)
	if !ok {
		return false
	}
	_, fresh := fa.X.(*ssa.Alloc)
	return fresh
}
