package main

import (
	"fmt"
	"go/token"

	"golang.org/x/tools/go/ssa"
)

func init() {
	register("C05", &propInfo{
		run: func(c *Ctx) {
			ma := newMergeAnalysis(c)
			ma.ruleR1(c)
			ma.ruleR1t(c)
			ma.ruleR8(c)
			ma.ruleR14m(c)
			ma.ruleR13(c)
			ma.ruleR16(c)
			ma.ruleR18(c)
			ma.ruleR19(c)
			ma.ruleR20(c)
			ma.ruleR21(c)
			ma.ruleR22(c)
			ma.ruleR15(c)
			ruleR14(c)
			ma.ruleR14n(c)
			ruleV4(c)
			ruleV7(c)   // Copy() builds the staged and collected resources through the optional constructors: they must hold exactly what they are given (nil stays unset)
			ruleR2R3(c) // single owner per field: each claim checks and records in the same ledger slot
		},
		explanation: "Decides the collection structure of container updates: one accumulator per target (the hit path returns the stored one; allocation, registration and the append to the reply list are on the miss path, the append additionally excluded for the request's own container, which the response getter appends last); an update of the container being created is rejected before any effect; updateResources stages every change on a Copy() (which shares nothing with the original), claims before each staged write, is driven only by the plugin's own update for every resource field, and commits to the accumulator/request only after the last claim so that a failing (ignored) update contributes nothing; the only error that may be dropped is updateResources' under the update's IgnoreFailure flag, and an accumulator's flag is the conjunction of its contributors'; apply routes every response's updates to the merge and the getters return exactly the accumulators. Staged maps are created only when nil. Each claim checks and records in the same ledger slot; the optional constructors keep nil as nil.",
		notDecided: []string{
			"contents of the returned list as values",
			"that claims made by an ignore-failure update before its conflicting field stay in the ledger after the update is dropped (observation, not claimed either way)",
		},
	})
}

func (ma *mergeAnalysis) ruleR16(c *Ctx) {
	m := c.M
	c.rule("R16", "one accumulator per target: in getContainerUpdate the hit path returns the stored accumulator; the allocation, its registration in the per-target map and the append to the reply list are all on the miss path; the append is additionally excluded for the update request's own container", 4)
	mf := ma.get("getContainerUpdate")
	if mf == nil {
		panic(anchorErr{"result.getContainerUpdate not found"})
	}
	f := mf.fn
	// the lookup
	var lk *ssa.Lookup
	for _, b := range f.Blocks {
		for _, in := range b.Instrs {
			if l, ok := in.(*ssa.Lookup); ok && l.CommaOk {
				a := m.ap(l.X)
				if a.Root == ssa.Value(mf.recv) && a.PathString() == "updates" {
					lk = l
				}
			}
		}
	}
	if lk == nil {
		c.violate("R16", "lookup", f.Pos(), "getContainerUpdate looks the target up in the per-target map", "no comma-ok lookup in r.updates")
		return
	}
	idA := m.ap(lk.Index)
	p, isP := idA.Root.(*ssa.Parameter)
	c.ok("R16", "lookup", lk.Pos(), isP && mf.plugin[p] && idA.PathString() == "ContainerId", "the accumulator is looked up by the update's target container id",
		"lookup key is "+idA.String())
	onMiss := func(b *ssa.BasicBlock) bool {
		for _, cd := range controls(b) {
			cd = normCond(cd)
			if ex, ok := cd.V.(*ssa.Extract); ok && ex.Tuple == ssa.Value(lk) && ex.Index == 1 && !cd.Pol {
				return true
			}
		}
		return false
	}
	var acc ssa.Value
	for _, w := range mf.writes {
		if w.kind == "mapupdate" && w.space == "updates" {
			_, fresh := w.val.(*ssa.Alloc)
			acc = w.val
			c.ok("R16", "register", w.instr.Pos(), onMiss(w.block()) && fresh && m.valEq(w.key, lk.Index), "a fresh accumulator is registered under the target id only when none exists",
				"r.updates[id] is assigned on the hit path, with another key, or with a non-fresh object: an existing accumulator (and the values collected in it) is replaced")
		}
	}
	if acc == nil {
		c.violate("R16", "register", f.Pos(), "a fresh accumulator is registered under the target id", "no store into r.updates")
	}
	nApp := 0
	for _, w := range mf.writes {
		if w.space != "replyupd" || !w.isAppnd {
			continue
		}
		nApp++
		elemOK := len(w.elems) == 1 && w.elems[0] == acc
		ba := m.ap(w.appBase)
		baseOK := ba.Root == w.target.Root && ba.PathString() == w.target.PathString()
		// excluded for the request's own container
		own := false
		for _, cd := range controls(w.block()) {
			cd = normCond(cd)
			if bo, ok := cd.V.(*ssa.BinOp); ok && ((bo.Op == token.NEQ && cd.Pol) || (bo.Op == token.EQL && !cd.Pol)) {
				ax, ay := m.ap(bo.X), m.ap(bo.Y)
				for _, pr := range [][2]AP{{ax, ay}, {ay, ax}} {
					if pr[0].Root == ssa.Value(mf.recv) && pr[0].PathString() == "request.update.Container.Id" && m.valEq(lk.Index, valueOfAP(bo, pr[1], ax, ay)) {
						own = true
					}
				}
			}
		}
		// reachable also when there is no update request at all
		c.ok("R16", "append", w.instr.Pos(), onMiss(w.block()) && elemOK && baseOK, "the new accumulator is appended to the reply list once, on the miss path",
			"the append happens on the hit path too, appends something other than the new accumulator, or replaces the list: a target gets several entries or loses earlier ones")
		c.ok("R16", "append-not-own", w.instr.Pos(), own || ownExcludedByPhi(m, mf, w, lk), "the request's own container is not appended here (the response getter appends it last)",
			"the append is not excluded for the container being updated: it is listed twice or not last")
	}
	if nApp != 1 {
		c.violate("R16", "append", f.Pos(), "the new accumulator is appended to the reply list exactly once", fmt.Sprintf("%d appends to reply.update", nApp))
	}
	// returns
	for _, r := range returnsOf(f) {
		for _, v := range returnValues(r, 0) {
			if isNilConst(v) || v == acc {
				continue
			}
			if ex, ok := v.(*ssa.Extract); ok && ex.Tuple == ssa.Value(lk) && ex.Index == 0 {
				continue
			}
			c.violate("R16", "return", r.Pos(), "getContainerUpdate returns the registered accumulator", "returns something that is neither the looked-up nor the newly registered accumulator")
		}
	}
	c.add("R16", "return", f.Pos(), Discharged, "getContainerUpdate returns the looked-up or the newly registered accumulator", "")
}

func valueOfAP(bo *ssa.BinOp, want AP, ax, ay AP) ssa.Value {
	if want.Root == ax.Root && want.PathString() == ax.PathString() {
		return bo.X
	}
	return bo.Y
}

// ownExcludedByPhi handles the short-circuit form `request == nil || request.Container.Id != id`:
// the append block is reached either from the nil test or from the id comparison.
func ownExcludedByPhi(m *Module, mf *mergeFn, w *mwrite, lk *ssa.Lookup) bool {
	b := w.block()
	if len(b.Preds) < 2 {
		return false
	}
	okAll := true
	sawCmp := false
	for _, p := range b.Preds {
		iff := lastIf(p)
		if iff == nil {
			okAll = false
			continue
		}
		bo, ok := iff.Cond.(*ssa.BinOp)
		if !ok {
			okAll = false
			continue
		}
		toB := p.Succs[0] == b // true edge leads to the append
		ax, ay := m.ap(bo.X), m.ap(bo.Y)
		switch {
		case isNilConst(bo.Y) && ax.Root == ssa.Value(mf.recv) && ax.PathString() == "request.update":
			// request == nil -> append
			if !((bo.Op == token.EQL && toB) || (bo.Op == token.NEQ && !toB)) {
				okAll = false
			}
		case (ax.Root == ssa.Value(mf.recv) && ax.PathString() == "request.update.Container.Id" && m.valEq(bo.Y, lk.Index)) ||
			(ay.Root == ssa.Value(mf.recv) && ay.PathString() == "request.update.Container.Id" && m.valEq(bo.X, lk.Index)):
			sawCmp = true
			if !((bo.Op == token.NEQ && toB) || (bo.Op == token.EQL && !toB)) {
				okAll = false
			}
		default:
			okAll = false
		}
	}
	return okAll && sawCmp
}

func (ma *mergeAnalysis) ruleR18(c *Ctx) {
	m := c.M
	c.rule("R18", "self-update during creation rejected: the comparison of the update's target with the container being created dominates every effect of getContainerUpdate, and its true branch returns a non-nil error and no accumulator", 1)
	mf := ma.get("getContainerUpdate")
	f := mf.fn
	var test *ssa.If
	var trueSucc *ssa.BasicBlock
	for _, b := range f.Blocks {
		iff := lastIf(b)
		if iff == nil {
			continue
		}
		bo, ok := iff.Cond.(*ssa.BinOp)
		if !ok || (bo.Op != token.EQL && bo.Op != token.NEQ) {
			continue
		}
		ax, ay := m.ap(bo.X), m.ap(bo.Y)
		isCre := func(a AP) bool {
			return a.Root == ssa.Value(mf.recv) && a.PathString() == "request.create.Container.Id"
		}
		isUpd := func(a AP) bool {
			p, ok := a.Root.(*ssa.Parameter)
			return ok && mf.plugin[p] && a.PathString() == "ContainerId"
		}
		if (isCre(ax) && isUpd(ay)) || (isCre(ay) && isUpd(ax)) {
			test = iff
			trueSucc = b.Succs[0]
			if bo.Op == token.NEQ {
				trueSucc = b.Succs[1]
			}
		}
	}
	what := "an update of the container being created fails the request before any effect"
	if test == nil {
		c.violate("R18", "getContainerUpdate", f.Pos(), what, "no comparison of the update's ContainerId with request.create.Container.Id: a plugin can update the container it is asked to create")
		return
	}
	bad := ""
	// equal-branch returns (nil, non-nil error)
	if r, ok := trueSucc.Instrs[len(trueSucc.Instrs)-1].(*ssa.Return); !ok {
		bad = "the equal-branch does not return"
	} else {
		for _, v := range returnValues(r, 0) {
			if !isNilConst(v) {
				bad = "the equal-branch returns an accumulator"
			}
		}
		for _, v := range returnValues(r, 1) {
			if !isNonNilErrorValue(m, v, 0) {
				bad = "the equal-branch does not return a non-nil error"
			}
		}
	}
	// dominates every effect, or effects are only reachable when creation does not apply
	for _, w := range mf.writes {
		if instrCanReach(w.instr, test) {
			bad = fmt.Sprintf("the effect at %s can happen before the self-update test", c.pos(w.instr.Pos()))
		}
		if canReach(trueSucc, w.block()) {
			bad = fmt.Sprintf("the effect at %s is reachable from the rejecting branch", c.pos(w.instr.Pos()))
		}
	}
	c.ok("R18", "getContainerUpdate", test.Pos(), bad == "", what, bad)
}

func (ma *mergeAnalysis) ruleR19(c *Ctx) {
	m := c.M
	c.rule("R19", "staged commit: updateResources writes plugin values only into a Copy() of the accumulated/requested resources; no store into the accumulator or the request can be followed by a claim or by a failing return; the commit stores the staged copy", 3)
	mf := ma.get("updateResources")
	if mf == nil {
		panic(anchorErr{"result.updateResources not found"})
	}
	// (1) all value writes go to the staged copy
	n := 0
	for _, w := range mf.writes {
		if mf.classify(w) == "value" {
			n++
			if w.space != "staged" {
				c.violate("R19", "direct/"+w.item, w.instr.Pos(), "plugin values are written to the staged copy only",
					fmt.Sprintf("%s is written directly into %s (%s): if a later field of the same update conflicts and the failure is ignored, this value has already been applied", w.item, w.space, w.target))
			}
		}
	}
	c.ok("R19", "staged-writes", mf.fn.Pos(), n >= 20, "updateResources stages every resource field on the copy", fmt.Sprintf("only %d staged value writes found", n))
	// the staged object is a Copy() of accumulated state on every path
	for _, w := range mf.writes {
		if w.space == "staged" && mf.classify(w) == "value" {
			srcs := valueSources(w.target.Root, w.instr, 0)
			okc := len(srcs) > 0
			for _, s := range srcs {
				call, ok := s.(*ssa.Call)
				if !ok {
					okc = false
					continue
				}
				g := m.callee(call.Common())
				if g == nil || g.Name() != "Copy" {
					okc = false
				}
			}
			c.ok("R19", "copy", w.target.Root.Pos(), okc, "the working object is the result of Copy() on every path", "the staged object is not a Copy(): writes reach accumulated state before all claims succeeded")
			break
		}
	}
	// (2) commit stores: into the accumulator parameter or the request; nothing can fail after them
	commits := 0
	for _, w := range mf.writes {
		if w.space != "updacc" && w.space != "view" && w.space != "request" {
			continue
		}
		commits++
		key := "commit/" + w.space
		bad := ""
		for _, cl := range mf.claims {
			if instrCanReach(w.instr, cl.call) {
				bad = fmt.Sprintf("claim %s at %s can run after this commit", cl.name(), c.pos(cl.call.Pos()))
			}
		}
		for _, r := range returnsOf(mf.fn) {
			if !instrCanReach(w.instr, r) {
				continue
			}
			for _, v := range returnValues(r, 0) {
				if !isNilConst(v) {
					bad = fmt.Sprintf("a failing return at %s is reachable after this commit", c.pos(r.Pos()))
				}
			}
		}
		if mf.prov(w.val)&tStaged == 0 {
			bad = "the value committed is not the staged copy"
		}
		c.ok("R19", key, w.instr.Pos(), bad == "", fmt.Sprintf("the commit into %s happens after the last claim and cannot be followed by a failure", w.space), bad)
	}
	if commits == 0 {
		c.violate("R19", "commit", mf.fn.Pos(), "the staged resources are committed to the accumulator", "no store of the staged copy into the accumulator: accepted updates are lost")
	}
}

func (ma *mergeAnalysis) ruleR20(c *Ctx) {
	m := c.M
	c.rule("R20", "ignore-failure: update() drops an error of updateResources only under the IgnoreFailure flag of the very update it applied; a new accumulator takes the update's flag and an existing one becomes the conjunction of its own flag and the update's", 3)
	upd := m.method(pkgAdapt, "result", "update")
	ur := m.method(pkgAdapt, "result", "updateResources")
	for _, ci := range m.callsTo(upd, ur) {
		call := ci.(*ssa.Call)
		uArg := call.Call.Args[2]
		ev := errResult(call)
		bad := "the error of updateResources is not tested"
		for _, t := range nilTestsOf(ev) {
			fb := t.NonNil
			if isExit(fb) {
				bad = ""
				continue
			}
			iff := lastIf(fb)
			if iff == nil {
				bad = "the failing branch neither returns nor tests IgnoreFailure"
				continue
			}
			cv := iff.Cond
			neg := false
			if u, ok := cv.(*ssa.UnOp); ok && u.Op == token.NOT {
				cv, neg = u.X, true
			}
			a := m.ap(cv)
			ua := m.ap(uArg)
			same := a.Root == ua.Root && a.PathString() == ua.PathString()+suffixIf(ua.PathString() != "", ".")+"IgnoreFailure" && sameIter(cv, uArg)
			if !same {
				bad = "the flag tested (" + a.String() + ") is not the IgnoreFailure of the update that was applied"
				continue
			}
			// the branch taken when the flag is false returns the error
			retSucc := fb.Succs[1]
			if neg {
				retSucc = fb.Succs[0]
			}
			st, d := failLeadsToReturn(m, upd, retSucc, ev, 1)
			if st != "ok" {
				bad = "when the flag is not set the error is not returned: " + d
			} else {
				bad = ""
			}
		}
		c.ok("R20", "update/drop", call.Pos(), bad == "", "update() drops updateResources' error only under the applied update's IgnoreFailure", bad)
	}
	mf := ma.get("getContainerUpdate")
	nNew, nOld := 0, 0
	for _, b := range mf.fn.Blocks {
		for _, in := range b.Instrs {
			st, ok := in.(*ssa.Store)
			if !ok {
				continue
			}
			fa, ok := st.Addr.(*ssa.FieldAddr)
			if !ok || fieldName(fa.X.Type(), fa.Field) != "IgnoreFailure" {
				continue
			}
			isUpdFlag := func(v ssa.Value) bool {
				a := m.ap(v)
				p, ok := a.Root.(*ssa.Parameter)
				return ok && mf.plugin[p] && a.PathString() == "IgnoreFailure"
			}
			if _, fresh := fa.X.(*ssa.Alloc); fresh {
				nNew++
				c.ok("R20", "flag/new", st.Pos(), isUpdFlag(st.Val), "a new accumulator takes the update's IgnoreFailure flag", "the new accumulator's flag is not the update's")
				continue
			}
			nOld++
			// the same conjunction written as a conditional clear: `if !u.IgnoreFailure { acc.IgnoreFailure = false }`
			if isConstBool(st.Val, false) {
				cds := controls(st.Block())
				okC := false
				if len(cds) > 0 {
					if n := normCond(cds[0]); !n.Pol && isUpdFlag(n.V) {
						okC = true
					}
				}
				c.ok("R20", "flag/conjunction", st.Pos(), okC, "an existing accumulator's flag becomes old && update's (cleared exactly when the update's flag is not set)",
					"the accumulator's flag is cleared under a condition other than the update's flag being unset")
				continue
			}
			// conjunction: sources ⊆ {false, update's flag, old flag}; contains the update's flag; never constant true
			srcs := valueSources(st.Val, st, 0)
			hasUpd, bad := false, ""
			for _, s := range srcs {
				switch {
				case isUpdFlag(s):
					hasUpd = true
				case isConstBool(s, false):
				case isOldFlag(m, s, fa):
				default:
					if bo, ok := s.(*ssa.BinOp); ok && bo.Op == token.AND {
						if (isUpdFlag(bo.X) && isOldFlag(m, bo.Y, fa)) || (isUpdFlag(bo.Y) && isOldFlag(m, bo.X, fa)) {
							hasUpd = true
							continue
						}
					}
					bad = "the flag can become something other than old && update's"
				}
			}
			// short-circuit form: the update's flag is only consulted when the old flag is set
			if ph, ok := st.Val.(*ssa.Phi); ok && bad == "" {
				for i, e := range ph.Edges {
					if isConstBool(e, false) {
						// this edge must come from the old flag being false
						pb := ph.Block().Preds[i]
						iff := lastIf(pb)
						if iff == nil || !isOldFlag(m, iff.Cond, fa) || pb.Succs[1] != ph.Block() {
							bad = "the accumulator's flag is cleared on a path that does not test its old value"
						}
					}
				}
			}
			c.ok("R20", "flag/conjunction", st.Pos(), hasUpd && bad == "", "an existing accumulator's flag becomes old && update's", bad+suffixIf(!hasUpd, " (the update's flag is not taken into account)"))
		}
	}
	if nNew == 0 || nOld == 0 {
		c.violate("R20", "flag", mf.fn.Pos(), "the accumulator's IgnoreFailure flag is maintained", fmt.Sprintf("found %d initialisations and %d updates of the flag", nNew, nOld))
	}
}

func suffixIf(b bool, s string) string {
	if b {
		return s
	}
	return ""
}

func isConstBool(v ssa.Value, want bool) bool {
	c, ok := v.(*ssa.Const)
	if !ok || c.Value == nil {
		return false
	}
	return c.Value.String() == fmt.Sprint(want)
}

func isOldFlag(m *Module, v ssa.Value, fa *ssa.FieldAddr) bool {
	u, ok := v.(*ssa.UnOp)
	if !ok || u.Op != token.MUL {
		return false
	}
	f2, ok := u.X.(*ssa.FieldAddr)
	return ok && f2.Field == fa.Field && f2.X == fa.X
}
