#!/usr/bin/env python3
"""Generates /verif/MANIFEST.json from the table below (kept in one place so that the
manifest always validates).  A property is claimed only when its check exists in the
checker; everything else is listed under not_applicable with the reason."""
import json, os, subprocess, sys

VERIF = os.path.dirname(os.path.dirname(os.path.abspath(__file__)))

# id -> (technique, level text, level note, design ref)
CLAIMED = json.load(open(os.path.join(VERIF, "scripts", "claims.json")))
DESCR = json.loads(subprocess.run([os.path.join(VERIF, "bin", "nricheck"), "-describe"], stdout=subprocess.PIPE, check=True).stdout)
NOTE = "Trusted base: Go type checker and go/ssa (x/tools v0.29.0); context-insensitive analysis; calls outside the repository (standard library, ttrpc, wazero, runtime-tools) are opaque except for the summaries listed in DESIGN.md 2.2. The clauses decided are structural necessary conditions of the property, not the behaviour itself; not decided: "
for pid, c in CLAIMED.items():
    d = DESCR.get(pid)
    if d is None:
        c["claimed"] = False
        continue
    c.setdefault("text", d["explanation"] + " Level 'other': the property quantifies over runtime values, schedules or faults that no sound static argument can bound, so the strongest honest claim is this exhaustive check of the code's structure (every site, path and table entry, enumerated from the current tree on every run).")
    c.setdefault("note", NOTE + "; ".join(d["not_decided"]) + ".")
PENDING_REASON = "check not built yet in this revision (DESIGN.md section 3 describes the planned structural rules); not claimed until the checker decides it"

props = [json.loads(l) for l in open(os.path.join(VERIF, "properties.jsonl"))]
checks, na = [], []
for p in props:
    pid = p["id"]
    if pid in CLAIMED and CLAIMED[pid].get("claimed", True):
        c = CLAIMED[pid]
        checks.append({
            "property_id": pid,
            "quick_cmd": f"./run.sh {pid} quick",
            "thorough_cmd": f"./run.sh {pid} thorough",
            "evidence_file": f"/verif/evidence/{pid}.json",
            "replay_cmd_template": f"./run.sh {pid} quick --replay {{path}}",
            "engine": "nricheck",
            "level_claimed": {"category": "other", "text": c["text"], "design_ref": f"DESIGN.md section 3, {pid}"},
            "level_note": c["note"],
            "technique": c["technique"],
        })
    else:
        reason = CLAIMED.get(pid, {}).get("reason", PENDING_REASON)
        na.append({"property_id": pid, "reason": reason})

manifest = {
    "version": 1,
    "setup_cmd": "cd /verif/checker && env -u GOWORK GOFLAGS=-mod=mod GOPROXY=off GOSUMDB=off GOTOOLCHAIN=local go build -o /verif/bin/nricheck .",
    "hooks": {
        "guard": "verif",
        "enable": "none needed: static analysis reads /repo's sources as they are; there are no hook commits",
        "baseline_off_cmd": "/verif/scripts/baseline.sh /repo",
        "source_commits": [],
        "add_only": True,
    },
    "engines": [{
        "name": "nricheck",
        "path": "/verif/checker",
        "serves_properties": [c["property_id"] for c in checks],
        "kind_free_text": "repository-specific static analyser (go/packages + go/types + go/ssa, x/tools v0.29.0): dominance / post-dominance, access paths, provenance, locksets, slice-bound prover, table cross-checks; analyses /repo's current sources on every run, executes nothing",
    }],
    "checks": checks,
    "not_applicable": na,
    "notes": "All claims are at level 'other': each check decides named structural clauses that are necessary conditions of the property (DESIGN.md section 3 lists, per property, what is and is not decided). Repairs of genuine defects are 'fix:' commits in /repo, recorded in /verif/known_findings.json.",
}
json.dump(manifest, open(os.path.join(VERIF, "MANIFEST.json"), "w"), indent=1)
print(f"MANIFEST.json: {len(checks)} checks, {len(na)} not_applicable")
try:
    import jsonschema
    jsonschema.validate(manifest, json.load(open("/root/.vp/MANIFEST.schema.json")))
    print("schema: valid")
except ImportError:
    print("jsonschema not importable by this python; validate with python3-vt")
