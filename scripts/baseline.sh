#!/bin/bash
# Runs the repository's pinned test suite (guard off: there are no hooks) in REPO (default /repo).
# Prints PASS/FAIL per package and exits non-zero on any failure.
REPO=${1:-/repo}
export GOFLAGS=-mod=mod GOPROXY=off GOSUMDB=off GOTOOLCHAIN=local
unset GOWORK
rc=0
for m in $(cat /w/out/gomods.txt 2>/dev/null | grep -v wasm || echo . ./plugins/device-injector ./plugins/ulimit-adjuster); do
  (cd "$REPO/$m" && go test -vet=off -count=1 -timeout 25m ./... 2>&1 | grep -v "no test files"; exit ${PIPESTATUS[0]}) || rc=1
done
exit $rc
