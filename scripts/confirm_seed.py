#!/usr/bin/env python3
"""Confirms a seeded change produced by a sub-agent and files it under /verif/seeded/<id>/.

usage: confirm_seed.py <agent-worktree> <seed-id> <property>[,<property>...]

Steps (all in a scratch worktree of /repo outside /repo and /verif, removed afterwards):
  1. demonstration on the unchanged tree  -> must pass
  2. apply patch.diff, build              -> must compile
  3. pinned suite (demonstration aside)   -> must pass
  4. demonstration with the change        -> must fail
  5. run the property checks against the changed tree and record whether they fire
"""
import json, os, shutil, subprocess, sys

VERIF = os.path.dirname(os.path.dirname(os.path.abspath(__file__)))
ENV = dict(os.environ, GOFLAGS="-mod=mod", GOPROXY="off", GOSUMDB="off", GOTOOLCHAIN="local")
ENV.pop("GOWORK", None)


def sh(cmd, cwd=None):
    p = subprocess.run(cmd, shell=True, executable="/bin/bash", cwd=cwd, env=ENV, stdout=subprocess.PIPE, stderr=subprocess.STDOUT, text=True)
    return p.returncode, p.stdout


def main():
    agent, sid, props = sys.argv[1], sys.argv[2], sys.argv[3].split(",")
    out = os.path.join(agent, "_out")
    sub = sys.argv[4] if len(sys.argv) > 4 else ""
    if sub:
        out = os.path.join(agent, "_out", sub)
    wt = "/tmp/seedchk-wt"
    sh(f"git -C /repo worktree remove --force {wt}; rm -rf {wt}; git -C /repo worktree prune")
    rc, o = sh(f"git -C /repo worktree add --detach {wt} HEAD")
    assert rc == 0, o
    rec = {"ran": []}
    try:
        # demo files: untracked files of the agent's worktree outside _out
        rc, o = sh("git status --porcelain --untracked-files=all", cwd=agent)
        demos = [l[3:] for l in o.splitlines() if l.startswith("?? ") and not l[3:].startswith("_out/")]
        if sub:
            # round 2: the demonstration files are named in meta.json (they live in '_' directories or are env-gated)
            try:
                listed = json.load(open(os.path.join(out, "meta.json"))).get("demo_files", [])
            except Exception:
                listed = []
            listed = [d for d in listed if os.path.exists(os.path.join(agent, d))]
            if listed:
                demos = listed
            else:
                # fall back to the go files stored next to the patch
                demos = []
        demos = [d for d in demos if os.path.isfile(os.path.join(agent, d))]
        for d in demos:
            os.makedirs(os.path.dirname(os.path.join(wt, d)) or wt, exist_ok=True)
            shutil.copy(os.path.join(agent, d), os.path.join(wt, d))
        if not demos:
            # the demonstration lives under _out/ (kept out of ./... on purpose): bring it along
            shutil.copytree(out, os.path.join(wt, "_out"), ignore=shutil.ignore_patterns("patch.diff", "meta.json", "*.log"))
            demos = []
        demo_sh = open(os.path.join(out, "demo.sh")).read().replace(agent, wt)
        # scripts that locate the worktree root relative to their own position: they are run from the root here
        import re
        demo_sh = re.sub(r'cd "\$\(dirname "\$0"\)[^"]*"', 'cd ' + wt, demo_sh)
        open(os.path.join(wt, "_demo.sh"), "w").write(demo_sh)
        rc0, o0 = sh("bash _demo.sh", cwd=wt)
        rec["demo_without_change"] = "pass" if rc0 == 0 else "FAIL"
        rec["ran"].append("demonstration on the unchanged tree: exit %d" % rc0)
        rc, o = sh(f"git apply {out}/patch.diff", cwd=wt)
        assert rc == 0, "patch does not apply: " + o
        rc, o = sh("go build ./pkg/... ./plugins/... 2>&1 | tail -5; exit ${PIPESTATUS[0]}", cwd=wt)
        rec["compiles"] = rc == 0
        for d in demos:
            os.rename(os.path.join(wt, d), os.path.join(wt, d) + ".aside")
        rcs, os_ = sh(f"{VERIF}/scripts/baseline.sh {wt}")
        rec["suite_with_change"] = "pass" if rcs == 0 else "FAIL"
        rec["ran"].append("pinned suite with the change (demonstration moved aside): exit %d" % rcs)
        for d in demos:
            os.rename(os.path.join(wt, d) + ".aside", os.path.join(wt, d))
        rc1, o1 = sh("bash _demo.sh", cwd=wt)
        rec["demo_with_change"] = "fail" if rc1 != 0 else "PASSES (not a demonstration)"
        rec["ran"].append("demonstration with the change: exit %d" % rc1)
        # checks: remove demo files first (they are tests, not part of the change)
        for d in demos:
            os.remove(os.path.join(wt, d))
        os.remove(os.path.join(wt, "_demo.sh"))
        shutil.rmtree(os.path.join(wt, "_out"), ignore_errors=True)
        rec["checks"] = {}
        for p in props:
            rcc, oc = sh(f"{VERIF}/bin/nricheck -repo {wt} -property {p} -tier quick -verif /tmp/seedchk-verif", cwd=VERIF)
            rules = sorted(set(l.split()[1] for l in oc.splitlines() if l.startswith(("VIOLATED ", "UNDECIDED "))))
            rec["checks"][p] = {"exit": rcc, "fired": rcc == 1, "obligations": rules}
            rec["ran"].append(f"./run.sh {p} quick against the changed tree: exit {rcc}")
        confirmed = rec["demo_without_change"] == "pass" and rec["compiles"] and rec["suite_with_change"] == "pass" and rec["demo_with_change"] == "fail"
        rec["confirmed"] = confirmed
        print(json.dumps(rec, indent=1))
        if not confirmed:
            print("NOT CONFIRMED - not filed")
            if rc0 != 0:
                print(o0[-1500:])
            if rcs != 0:
                print(os_[-1500:])
            return 1
        dst = os.path.join(VERIF, "seeded", sid)
        os.makedirs(dst, exist_ok=True)
        shutil.copy(os.path.join(out, "patch.diff"), dst)
        for d in demos:
            shutil.copy(os.path.join(agent, d), os.path.join(dst, os.path.basename(d) + ".txt"))
        if not demos:
            for root, _, files in os.walk(out):
                for fn in files:
                    if fn.endswith(".go"):
                        shutil.copy(os.path.join(root, fn), os.path.join(dst, fn + ".txt"))
        open(os.path.join(dst, "demo.sh"), "w").write("# demonstration files (stored with a .txt suffix here) go to: " + ", ".join(demos) + "\n" + demo_sh.replace(wt, "<worktree>"))
        meta = json.load(open(os.path.join(out, "meta.json")))
        meta.update({"breaks_property": props, "demo_files": demos, "confirmation": rec,
                     "origin": "independent sub-agent given only the property text and a scratch worktree"})
        json.dump(meta, open(os.path.join(dst, "meta.json"), "w"), indent=1)
        return 0
    finally:
        sh(f"git -C /repo worktree remove --force {wt}; rm -rf {wt} /tmp/seedchk-verif; git -C /repo worktree prune")


sys.exit(main())
