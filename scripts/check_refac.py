#!/usr/bin/env python3
"""Runs every property check against a behaviour-preserving refactoring (a diff against /repo HEAD)
in a scratch worktree and reports any alarm.  usage: check_refac.py <id> <diff> [props...]"""
import os, subprocess, sys, concurrent.futures as cf, shutil
VERIF = os.path.dirname(os.path.dirname(os.path.abspath(__file__)))
ENV = dict(os.environ, GOFLAGS="-mod=mod", GOPROXY="off", GOSUMDB="off", GOTOOLCHAIN="local"); ENV.pop("GOWORK", None)
def sh(cmd, cwd=None):
    p = subprocess.run(cmd, shell=True, executable="/bin/bash", cwd=cwd, env=ENV, stdout=subprocess.PIPE, stderr=subprocess.STDOUT, text=True)
    return p.returncode, p.stdout
def main():
    rid, diff = sys.argv[1], sys.argv[2]
    props = sys.argv[3:] or ["C%02d" % i for i in range(1, 21)]
    wt = f"/tmp/rf-{rid}"
    sh(f"git -C /repo worktree remove --force {wt}; rm -rf {wt}; git -C /repo worktree prune")
    rc, o = sh(f"git -C /repo worktree add --detach {wt} HEAD"); assert rc == 0, o
    try:
        rc, o = sh(f"git apply {diff}", cwd=wt)
        if rc != 0:
            print(f"[{rid}] patch does not apply: {o[:300]}"); return 2
        rc, o = sh("go build ./pkg/... ./plugins/... 2>&1 | tail -3; exit ${PIPESTATUS[0]}", cwd=wt)
        if rc != 0:
            print(f"[{rid}] does not compile: {o[:300]}"); return 2
        def one(p):
            vd = f"/tmp/rf-verif-{rid}-{p}"
            rc, o = sh(f"{VERIF}/bin/nricheck -repo {wt} -property {p} -tier quick -verif {vd}", cwd=VERIF)
            shutil.rmtree(vd, ignore_errors=True)
            keys = sorted(set(l.split()[1] for l in o.splitlines() if l.startswith(("VIOLATED ", "UNDECIDED "))))
            return p, rc, keys, o
        bad = 0
        with cf.ThreadPoolExecutor(max_workers=5) as ex:
            for p, rc, keys, o in ex.map(one, props):
                if rc != 0:
                    bad += 1
                    print(f"[{rid}] {p}: ALARM {keys[:8]}")
                    for l in o.splitlines():
                        if l.startswith("    ") and not l.startswith("    rule") and not l.startswith("    obligation"):
                            print("      ", l.strip()[:260]); break
        print(f"[{rid}] {'silent on all %d properties' % len(props) if bad == 0 else '%d properties alarmed' % bad}")
        return 1 if bad else 0
    finally:
        sh(f"git -C /repo worktree remove --force {wt}; rm -rf {wt}; git -C /repo worktree prune")
sys.exit(main())
